/* C15 finding (fixed): scan_from(s, 0, "%i", x) of text written by print_to(s, 0, "%i", $I(-5)) read back 4294967291.
 * build: gcc -I /repo/include -std=gnu99 -w -DCELLO_NSTRACE C15_scan_int_negative.c /repo/src/*.c -lpthread -lm */
#include "Cello.h"
int main(int argc, char** argv) {
  var s = new(String, $S(""));
  var i = $I(-5), j = $I(0);
  print_to(s, 0, "%i", i);
  scan_from(s, 0, "%i", j);
  printf("text='%s' back=%li\n", c_str(s), c_int(j));
  if (c_int(j) != -5) { puts("FAIL"); return 1; }
  puts("OK"); return 0;
}
