#include "Cello.h"
static int live = 0;
struct Probe { int id; };
static void Probe_Assign(var self, var obj) { ((struct Probe*)self)->id = ((struct Probe*)obj)->id; live++; }
static void Probe_Del(var self) { live--; }
static var Probe = Cello(Probe, Instance(New, NULL, Probe_Del), Instance(Assign, Probe_Assign));
int main(int argc, char** argv) {
  var l = new_raw(List, Probe, $(Probe, 1), $(Probe, 2));
  int raised = 0;
  try { push_at(l, $(Probe, 3), $I(7)); } catch (e in IndexOutOfBoundsError) { raised = 1; }
  int after = live;
  del_raw(l);
  printf("raised=%d live after the failed push_at=%d (2 expected), after del=%d (0 expected)\n", raised, after, live);
  return (raised && after == 2 && live == 0) ? 0 : 1;
}
