#include "Cello.h"
static int finalised = 0;
struct Probe { int id; };
static void Probe_Del(var self) { finalised++; }
static var Probe = Cello(Probe, Instance(New, NULL, Probe_Del));
#define PAIRS 16
static void report(void) { printf("finalised=%d of %d\n", finalised, PAIRS); if (finalised != PAIRS) _exit(1); }
__attribute__((constructor)) static void early(void) { atexit(report); }    /* runs after Cello_Exit (teardown of the collector) */
static void make(void) {
  for (int i = 0; i < PAIRS; i++) {
    var inner = new(Probe);
    var box = new(Box, inner);     /* the Box owns inner; both are unreachable when make returns */
    (void)box;
  }
}
int main(int argc, char** argv) {
  make();
  return 0;                        /* Cello_Exit -> del_raw(GC) -> final sweep: every Probe finalised exactly once */
}
