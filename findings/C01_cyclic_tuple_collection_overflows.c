/* C01 finding (fixed): a collection never finished on a heap cycle that runs through a container with a
 * Mark instance.  GC_Mark_And_Recurse entered its argument unconditionally after GC_Mark_Item had already
 * marked-and-entered it, so a heap Tuple that (directly or through another Tuple) contains itself recursed
 * without bound (stack overflow, SIGSEGV), and a chain of d nested heap Tuples cost 2^d visits.
 * build: gcc -I /repo/include -std=gnu99 -w -DCELLO_NSTRACE C01_cyclic_tuple_collection_overflows.c /repo/src/*.c -lpthread -lm
 * before the fix: segmentation fault; after: prints OK */
#include "Cello.h"
int main(int argc, char** argv) {
  var a = new(Tuple), b = new(Tuple);
  var payload = new(Int, $I(42));
  push(a, b); push(b, a); push(b, payload);          /* a -> b -> a, b -> payload */
  var chain = new(Tuple);                              /* 40 nested tuples: 2^40 visits before the fix */
  var cur = chain;
  for (int i = 0; i < 40; i++) { var nxt = new(Tuple); push(cur, nxt); cur = nxt; }
  push(cur, new(Int, $I(7)));
  for (int i = 0; i < 3000; i++) { var x = new(Int, $I(i)); }   /* force collections */
  if (len(a) != 1 || len(b) != 2 || c_int(get(b, $I(1))) != 42) { puts("FAIL"); return 1; }
  cur = chain; for (int i = 0; i < 40; i++) cur = get(cur, $I(0));
  if (c_int(get(cur, $I(0))) != 7) { puts("FAIL chain"); return 1; }
  puts("OK"); return 0;
}
