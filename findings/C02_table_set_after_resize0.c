#include "Cello.h"
int main(int argc, char** argv) {
  var t = new(Table, Int, Int);
  set(t, $I(1), $I(10));
  resize(t, 0);
  set(t, $I(2), $I(20));          /* emptied table must keep working */
  print("len=%i get(2)=%$\n", $I(len(t)), get(t, $I(2)));
  return !(len(t) == 1);
}
