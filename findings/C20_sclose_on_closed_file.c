#include "Cello.h"
int main(int argc, char** argv) {
  var f = new(File, $S("/tmp/cello_c20_demo.txt"), $S("w"));
  sclose(f);
  int raised = 0;
  try { sclose(f); } catch (e in IOError) { raised = 1; }      /* closing a File that is not open must raise IOError */
  print("second sclose raised IOError: %i\n", $I(raised));
  return raised ? 0 : 1;
}
