#include "Cello.h"
/* built with -DCELLO_VERIF: the stack segment scanned by GC_Mark_Stack is supplied here -- an EMPTY segment, so
 * that stale stack words cannot hide the defect; roots are then root objects and thread-local storage only */
static var fake_bottom;
static int hide_stack = 0;
var cello_verif_stack_top(var top) { return hide_stack ? fake_bottom : top; }
static int finalised = 0;
struct Probe { int id; };
static void Probe_Del(var self) { finalised++; }
static var Probe = Cello(Probe, Instance(New, NULL, Probe_Del));
void GC_Mark(var gc); void GC_Sweep(var gc);
int main(int argc, char** argv) {
  var gc = current(GC);
  fake_bottom = *(var*)((char*)gc + 6 * sizeof(var));      /* gc->bottom: top == bottom => nothing scanned */
  var p = new(Probe);
  set(current(Thread), $S("mine"), p);                      /* reachable from thread-local storage */
  hide_stack = 1;
  GC_Mark(gc); GC_Sweep(gc);
  hide_stack = 0;
  printf("finalised while stored in thread-local storage: %d (must be 0)\n", finalised);
  return finalised == 0 ? 0 : 1;
}
