/* C13 / C06 finding (fixed): a worker thread deleted its Exception object before its collector, so a destructor using try/catch, run by the final sweep at thread exit, recursed until SIGSEGV; the same destructor works in the main thread.
 * build: gcc -I /repo/include -std=gnu99 -w -DCELLO_NSTRACE C13_worker_teardown_order.c /repo/src/*.c -lpthread -lm ; before the fix: SIGSEGV */
#include "Cello.h"
struct Res { int id; };
static volatile int finalised = 0;
static void Res_New(var self, var args) { }
static void Res_Del(var self) {
  try { throw(ValueError, "cleanup problem"); } catch (e in ValueError) { finalised++; }
}
static var Res = Cello(Res, Instance(New, Res_New, Res_Del));
static var worker(var args) { var r = new(Res); r = NULL; return NULL; }
int main(int argc, char** argv) {
  var t = new(Thread, $(Function, worker));
  call(t); join(t);
  printf("after join: finalised=%d\n", finalised);
  if (finalised != 1) { puts("FAIL"); return 1; }
  puts("OK"); return 0;
}
