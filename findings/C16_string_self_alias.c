/* C16 finding (fixed): concat(s, s) / append(s, s) ran strcat over its own buffer (heap corruption), assign(q, q) copied from the buffer it had just reallocated.
 * build: gcc -I /repo/include -std=gnu99 -w -DCELLO_NSTRACE C16_string_self_alias.c /repo/src/*.c -lpthread -lm ; before the fix: FAIL / abort */
#include "Cello.h"
int main(int argc, char** argv) {
  int bad = 0;
  var s = new(String, $S("abc"));
  concat(s, s);
  if (strcmp(c_str(s), "abcabc") != 0 || len(s) != 6) { printf("FAIL concat(s,s): [%s]\n", c_str(s)); bad = 1; }
  append(s, s);
  if (strcmp(c_str(s), "abcabcabcabc") != 0) { printf("FAIL append(s,s): [%s]\n", c_str(s)); bad = 1; }
  var q = new(String, $S("a fairly long string so that realloc has a reason to move the block around"));
  var copyq = copy(q);
  assign(q, q);
  if (!eq(q, copyq)) { printf("FAIL assign(q,q): [%s]\n", c_str(q)); bad = 1; }
  if (!bad) puts("OK");
  return bad;
}
