#include "Cello.h"
#include <math.h>
int main(int argc, char** argv) {
  var orig = $F(123456789.125);
  var text = new(String);
  show_to(orig, text, 0);                          /* "123456789.125000" */
  var back = new(Float);
  look_from(back, text, 0);
  double d = fabs(c_float(back) - c_float(orig));
  print("shown %s, read back %f, difference %f\n", text, back, $F(d));
  return d < 1e-6 ? 0 : 1;                          /* equal to within the printed precision */
}
