#include "Cello.h"
int main(int argc, char** argv) {
  var buf[3] = { $I(99), Terminal, NULL };        /* items[-1] of the empty Tuple below is buf[0] */
  var t = $(Tuple, &buf[1]);                      /* an empty Tuple */
  var c = iter_last(t);
  puts(c is Terminal ? "OK" : "FAIL: iter_last of an empty Tuple returned the word before its items");
  return c is Terminal ? 0 : 1;
}
