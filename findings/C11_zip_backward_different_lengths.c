#include "Cello.h"
int main(int argc, char** argv) {
  var a = new(Array, Int, $I(10), $I(11), $I(12));
  var b = new(Array, Int, $I(20), $I(21));
  var z = zip(a, b);                              /* forward: (10,20) (11,21) */
  int bad = 0, n = 0; int64_t exp_a[] = { 11, 10 }, exp_b[] = { 21, 20 };
  for (var c = iter_last(z); c isnt Terminal; c = iter_prev(z, c)) {
    if (n < 2 && (c_int(get(c, $I(0))) != exp_a[n] || c_int(get(c, $I(1))) != exp_b[n])) bad = 1;
    n++; if (n > 5) break;
  }
  if (n != 2) bad = 1;
  puts(bad ? "FAIL: backward iteration of zip over inputs of different lengths is not the reverse of forward iteration" : "OK");
  return bad;
}
