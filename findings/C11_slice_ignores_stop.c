#include "Cello.h"
static int collect(var it, int64_t* out, int max) { int n = 0; foreach (x in it) { if (n < max) out[n] = c_int(x); n++; if (n > 50) break; } return n; }
int main(int argc, char** argv) {
  var x = new(Array, Int, $I(0), $I(1), $I(2), $I(3), $I(4), $I(5), $I(6));
  int64_t got[64]; int bad = 0;
  int n = collect(slice(x, $I(1), $I(3)), got, 64);                       /* elements 1, 2 */
  if (!(n == 2 && got[0] == 1 && got[1] == 2)) { printf("slice(x,1,3) yielded %d items\n", n); bad = 1; }
  n = collect(slice(x, $I(0), $I(5), $I(2)), got, 64);                    /* elements 0, 2, 4 */
  if (!(n == 3 && got[0] == 0 && got[1] == 2 && got[2] == 4)) { printf("slice(x,0,5,2) yielded %d items\n", n); bad = 1; }
  n = collect(slice(x, $I(-100), _), got, 64);                            /* far-negative start clamps to 0: all 7 */
  if (n != 7) { printf("slice(x,-100,_) yielded %d items\n", n); bad = 1; }
  n = collect(reverse(x), got, 64);
  if (!(n == 7 && got[0] == 6 && got[6] == 0)) { printf("reverse(x) yielded %d items\n", n); bad = 1; }
  if (len(slice(x, $I(1), $I(3))) != 2) { bad = 1; }
  puts(bad ? "FAIL" : "OK");
  return bad;
}
