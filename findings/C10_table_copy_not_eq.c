/* C10 finding (fixed): Table_Cmp walked both tables in slot order, so two Tables holding the same entries in
 * different slots were not eq -- in particular eq(copy(t), t) was false for t built by set 9, 3, 5, 4
 * (copy re-inserts in slot order, collisions resolve differently), although hash(copy(t)) == hash(t).
 * build: gcc -I /repo/include -std=gnu99 -w -DCELLO_NSTRACE C10_table_copy_not_eq.c /repo/src/*.c -lpthread -lm
 * before the fix: prints FAIL, exit 1; after: OK */
#include "Cello.h"
int main(int argc, char** argv) {
  var t = new(Table, Int, Int);
  set(t, $I(9), $I(90)); set(t, $I(3), $I(30)); set(t, $I(5), $I(50)); set(t, $I(4), $I(40));
  var c = copy(t);
  var u = new(Table, Int, Int);
  set(u, $I(4), $I(40)); set(u, $I(5), $I(50)); set(u, $I(3), $I(30)); set(u, $I(9), $I(90));
  int bad = 0;
  if (!eq(c, t)) { puts("FAIL: eq(copy(t), t) is false"); bad = 1; }
  if (!eq(u, t) || !eq(t, u)) { puts("FAIL: same entries inserted in another order are not eq"); bad = 1; }
  if (hash(c) != hash(t) || hash(u) != hash(t)) { puts("FAIL: hashes differ"); bad = 1; }
  set(u, $I(9), $I(91));
  if (eq(u, t)) { puts("FAIL: different values compare equal"); bad = 1; }
  if (!bad) puts("OK");
  return bad;
}
