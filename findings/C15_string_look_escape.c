#include "Cello.h"
int main(int argc, char** argv) {
  var orig = $S("a\nb\"c\\d");
  var text = new(String);
  show_to(orig, text, 0);                          /* writes "a\nb\"c\\d" with the escapes spelled out */
  var back = new(String);
  look_from(back, text, 0);
  print("shown: %s\nread back equals original: %i\n", text, $I(eq(back, orig)));
  return eq(back, orig) ? 0 : 1;
}
