#include "Cello.h"
int main(int argc, char** argv) {
  var t = new(Table, Int, Int);
  set(t, $I(0), $I(100)); set(t, $I(5), $I(105)); set(t, $I(10), $I(110));   /* 0, 5, 10 collide modulo 5 */
  set(t, $I(5), $I(205));                                                    /* update of an existing key */
  print("len=%i get(5)=%$\n", $I(len(t)), get(t, $I(5)));
  int n = 0; foreach (k in t) { print("key %$ -> %$\n", k, get(t, k)); n++; }
  return !(len(t) == 3 && n == 3);
}
