#include "Cello.h"
int main(int argc, char** argv) {
  int outer = 0, inner = 0, after = 0;
  try {
    try { throw(KeyError, "inner"); } catch (e in KeyError) { inner++; }
    after++;
  } catch (e) { outer++; }          /* must NOT run: the exception was handled by the inner block */
  print("inner=%i after=%i outer=%i\n", $I(inner), $I(after), $I(outer));
  return !(inner == 1 && after == 1 && outer == 0);
}
