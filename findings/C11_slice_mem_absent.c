/* C11 finding (fixed): mem(slice(x, 1, 3), absent) raised ValueError (Terminal compared with the key, slice advanced from Terminal) instead of returning false.
 * build: gcc -I /repo/include -std=gnu99 -w -DCELLO_NSTRACE C11_slice_mem_absent.c /repo/src/*.c -lpthread -lm */
#include "Cello.h"
int main(int argc, char** argv) {
  var x = new(Array, Int, $I(1), $I(2), $I(3), $I(4));
  var s = slice(x, $I(1), $I(3));
  printf("mem present: %d\n", (int)mem(s, $I(2))); fflush(stdout);
  printf("mem absent: %d\n", (int)mem(s, $I(9))); fflush(stdout);
  puts("OK"); return 0;
}
