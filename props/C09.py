from vlib.core import Ob
ID = "C09"
LEVEL = "model_checking"
FUNCTIONS = ["cmp", "eq", "neq", "lt", "gt", "le", "ge", "Int_Cmp", "instance", "Type_Instance", "Type_Scan", "Type_Of", "c_int"]
ASSUMPTIONS = []
EXPLANATION = "bounded symbolic execution of the real comparison code"
BOUNDS = {}
OUTSIDE = ""
OBLIGATIONS = [
    Ob("int_cmp.full64", "C09/int_cmp.c", desc="Int cmp/eq/.../ge vs numeric order, three free int64", checks=["overflow"]),
]
LEVEL_TEXT = "Bounded model checking of the real cmp/eq/... code paths: every claim is 'for all values within the stated bounds' (full 64-bit width for Int/Float, strings up to the stated length), decided by SAT; not a proof beyond the bounds."
LEVEL_NOTE = "Trusted: cbmc's C semantics and IEEE-754 model, the harness reference orders, libc strcmp/memcmp modelled from ISO C. exception_throw replaced by a path-ending recorder."
