from vlib.core import Ob
ID = "C09"
LEVEL = "model_checking"
FUNCTIONS = ["Array_Cmp", "List_Cmp", "Array_Hash", "List_Hash", "cmp", "eq", "neq", "lt", "gt", "le", "ge", "Int_Cmp", "instance", "Type_Instance", "Type_Scan", "Type_Of", "c_int"]
ASSUMPTIONS = []
EXPLANATION = "bounded symbolic execution of the real comparison code"
BOUNDS = {}
OUTSIDE = ""
OBLIGATIONS = [
    Ob("int_cmp.full64", "C09/int_cmp.c", desc="Int cmp/eq/.../ge vs numeric order, three free int64", checks=["overflow"]),
    Ob("float_cmp.full", "C09/float_cmp.c", desc="Float cmp/eq/.../ge vs IEEE order, three free non-NaN doubles"),
    Ob("string_cmp.len4", "C09/string_cmp.c", defs=["SLEN=4"], desc="String cmp vs unsigned lexicographic order, 3 free strings <= 4 bytes", checks=["bounds", "pointer"], tiers=("quick",)),
    Ob("string_cmp.len8", "C09/string_cmp.c", defs=["SLEN=8"], desc="String cmp vs unsigned lexicographic order, 3 free strings <= 8 bytes", checks=["bounds", "pointer"], tiers=("thorough",)),
    Ob("struct_type_cmp", "C09/struct_cmp.c", desc="default memcmp branch on a 16-byte plain struct; Type name order on built-in types", checks=["bounds", "pointer"]),
]
def CC(nl, ml, other, tiers):
    us = ["Type_Scan.0:40", "Type_Scan.1:40", "strcmp.0:26", "memset.0:8", "memset.1:44", "memcpy.0:8", "memcpy.1:44", "Array_Cmp.0:6", "List_Cmp.0:6", "Array_Hash.0:6", "List_Hash.0:6", "elem_live_count.0:26"]
    return Ob("container_cmp.%s.n%dm%d" % ("list" if other else "array", nl, ml), "C09/container_cmp.c", defs=["NLEN=%d" % nl, "MLEN=%d" % ml] + (["OTHER_LIST"] if other else []),
              replace=["Array.c", "List.c"], unwind=8, unwindset=us, checks=["bounds", "pointer"], tiers=tiers,
              desc="Array_Cmp/Hash vs %s of lengths %d and %d, symbolic elements" % ("List" if other else "Array", nl, ml))
OBLIGATIONS += [CC(nl, ml, other, ("quick", "thorough") if (nl + ml) % 2 == (1 if other else 0) or nl == ml else ("thorough",)) for nl in range(4) for ml in range(4) for other in (0, 1)]
from props._compose import pick as _pick
OBLIGATIONS += _pick("C04", r"tuple\.cmphash\.n[0-3]m[0-3]") + _pick("C03", r"tree\.cmphash\.")
LEVEL_TEXT = "Bounded model checking of the real cmp/eq/... code paths: every claim is 'for all values within the stated bounds' (full 64-bit width for Int/Float, strings up to the stated length), decided by SAT; not a proof beyond the bounds."
LEVEL_NOTE = "Trusted: cbmc's C semantics and IEEE-754 model, the harness reference orders, libc strcmp/memcmp modelled from ISO C. exception_throw replaced by a path-ending recorder."
