from vlib.core import Ob
ID = "C03"
LEVEL = "model_checking"
FUNCTIONS = ["Tree_Set", "Tree_Set_Fix", "Tree_Rem", "Tree_Rem_Fix", "Tree_Rotate_Left", "Tree_Rotate_Right", "Tree_Replace", "Tree_Alloc", "Tree_Get", "Tree_Mem",
             "Tree_Iter_Init", "Tree_Iter_Next", "Tree_Iter_Last", "Tree_Iter_Prev", "Tree_Clear", "Tree_Clear_Entry", "Tree_Resize", "Tree_Maximum", "Tree_Sibling",
             "Tree_Uncle", "Tree_Grandparent", "Tree_Get_Parent", "Tree_Set_Parent", "Tree_Set_Color", "Tree_Get_Color", "Tree_Len"]
ASSUMPTIONS = []
EXPLANATION = "inductive step of each Tree operation from an arbitrary valid red-black tree (symbolic shape descriptor), post-state re-derived by an independent walk"
ACC = ["Tree_Get_Parent:verif_get_parent", "Tree_Set_Parent:verif_set_parent", "Tree_Set_Color:verif_set_color", "Tree_Get_Color:verif_get_color"]
def HMAX(n):
    return 0 if n == 0 else 1 if n == 1 else 3 if n <= 3 else 6 if n <= 7 else 8
def TR(name, op, tn, tiers, extra=(), height=None, **kw):
    h = HMAX(tn) if height is None else height + 1   # height of any tree the operation can see (pre-state height, +1 after insertion)
    us = ["harness.%d:%d" % (i_, 2 * tn + 4) for i_ in range(6)] + ["Tree_Mark.0:%d" % (tn + 2), "Type_Scan.0:24", "Type_Scan.1:24", "strcmp.0:24", "elem_live_count.0:26", "walk.0:26", "walk.1:%d" % (2 * tn + 5),
          "pool_calloc.0:16", "index_of.0:%d" % (tn + 2), "memcpy.0:14", "memcpy.1:90", "snapshot.0:16", "snapshot.1:%d" % (tn + 2), "verif_on_throw.0:16", "verif_on_throw.1:%d" % (tn + 2),
          "Tree_Set.0:%d" % (h + 2), "Tree_Set_Fix.0:%d" % (h // 2 + 3), "Tree_Rem.0:%d" % (h + 2), "Tree_Rem_Fix.0:%d" % (h + 2),
          "Tree_Maximum.0:%d" % (h + 1), "Tree_Mem.0:%d" % (h + 2), "Tree_Get.0:%d" % (h + 2),
          "Tree_Iter_Init.0:%d" % (h + 1), "Tree_Iter_Last.0:%d" % (h + 1), "Tree_Iter_Next.0:%d" % (h + 1), "Tree_Iter_Next.1:%d" % (h + 2),
          "Tree_Iter_Prev.0:%d" % (h + 1), "Tree_Iter_Prev.1:%d" % (h + 2)]
    kw.setdefault("mem_gb", 8 if tn > 6 else 5)     # the gate admits obligations by this figure: small shapes need little
    return Ob("tree.%s.n%d" % (name, tn - 1), "C03/tree_step.c", defs=["TN=%d" % tn] + ([("OP=%s" % op)] if op else []) + list(extra), replace=["Tree.c"],
              unwind=tn + 3, unwindset=us, checks=["bounds", "pointer"], tiers=tiers, fs_size=kw.pop("fs_size", 200),
              replace_calls=kw.pop("replace_calls", ACC),
              desc="Tree %s step from an arbitrary valid tree of <= %d nodes" % (name, tn - 1), **kw)
P = ("probe",)
from gen.rbshapes import all_shapes, count, gen_shape_header, show
def TS(name, op, maxn, si, tiers, **kw):
    shapes = all_shapes(maxn)
    t = shapes[si]
    def hgt(t):
        return 0 if t is None else 1 + max(hgt(t[1]), hgt(t[2]))
    o = TR(name, op, maxn + 1, tiers, ["SHAPED"], gen=gen_shape_header(si, maxn), height=hgt(t), fs_size=1024, **kw)
    o.name = "tree.%s.shape%d" % (name, si)
    o.desc = "Tree %s from red-black shape %s, symbolic keys/values" % (name, show(t))
    return o
OPS = [("set", "OP_SET"), ("rem", "OP_REM"), ("get", "OP_GET"), ("iter", "OP_ITER"), ("remabsent", "OP_REM_ABSENT"), ("clear", "OP_CLEAR"), ("mark", "OP_MARK"), ("cmphash", "OP_CMPHASH")]
CMPRC = ACC + ["iter_init:v2_iter_init", "iter_next:v2_iter_next", "get:v2_get", "verif_hash:v_hash_tree", "Tree_Get:v_tree_get"]
def family(maxn, tiers, checks, tag, timeout):
    out = []
    shapes = all_shapes(maxn)
    for si in range(len(shapes)):
        for nm, op in OPS:
            if count(shapes[si]) == 0 and nm == "rem":
                continue
            o = TS(nm, op, maxn, si, tiers, timeout=timeout, **(dict(replace_calls=CMPRC) if nm == "cmphash" else {}))
            if nm == "cmphash":
                o.unwindset = list(o.unwindset) + ["k2_index.0:%d" % (maxn + 3), "v_tree_get.0:%d" % (maxn + 3), "Tree_Cmp.0:%d" % (maxn + 3), "Tree_Hash.0:%d" % (maxn + 3)]
            o.name = "tree.%s.%s%d" % (nm, tag, si)
            o.checks = list(checks)
            out.append(o)
    return out
OBLIGATIONS = [TR("accessors", "OP_ACCESSORS", 2, ("quick", "thorough"), replace_calls=[], timeout=300)]
# quick: every red-black shape with <= 3 nodes, semantic oracle only (independent walk, ledger, pool liveness)
OBLIGATIONS += family(3, ("quick",), [], "q", 600)
# quick also: iteration on every shape with <= 6 nodes (cheap) and removal on the 4- and 5-node shapes (first sizes with a red sibling / black nephews)
for o_ in family(6, ("quick",), [], "t", 900):
    if o_.name.startswith("tree.iter."):
        o_.name = o_.name.replace(".t", ".qi"); OBLIGATIONS.append(o_)
for o_ in family(5, ("quick",), [], "five", 900):
    if o_.name.startswith("tree.rem.") and count(all_shapes(5)[int(o_.name.split(".five")[1])]) >= 4:
        OBLIGATIONS.append(o_)
# thorough: every shape with <= 6 nodes (34 shapes); cbmc pointer/bounds checks on the <= 4-node shapes
OBLIGATIONS += family(6, ("thorough",), [], "t", 1800)
_m = family(4, ("probe",), ["bounds", "pointer"], "m", 1800)     # ~250 s and 14 GB each: 95 min for the family, not re-run to completion in the round -> unclaimed probe tier
for o_ in _m:
    o_.mem_gb = 14          # cbmc's pointer checks make these the memory-hungry ones
OBLIGATIONS += _m
LEVEL_TEXT = ("Bounded model checking of the real Tree.c: every operation (set of a new and of an existing key, rem, rem of an absent key, get/mem, "
              "forward/backward iteration, clear, mark, cmp/hash) executed symbolically as one inductive step from EVERY red-black shape with <= 3 nodes "
              "(quick; iteration also on every shape with <= 6 nodes, removal also on the 4- and 5-node shapes) / <= 6 nodes (thorough, 34 shapes), "
              "with symbolic keys and values; the post-state is re-derived by an independent bounded in-order walk (search order, parent links, black root, "
              "no red-red edge, equal black height, count, height <= 2*log2(n+1), key->value map, ownership ledger, node-pool liveness). "
              "Claims hold for trees within the stated node counts only.")
LEVEL_NOTE = ("Trusted: cbmc; shapes are enumerated structurally by gen/rbshapes.py (every valid colouring of every binary tree within the node bound), keys/values symbolic; "
              "the probe element (cmp/assign/destruct/hash replaced by harness callbacks with an ownership ledger, routing to real Int/String instances is C08/C09); "
              "parent/colour accessors are discharged once (tree.accessors) and replaced by harness equivalents inside the steps (assume-guarantee); "
              "node calloc/free is a pool of separate cbmc objects; cbmc's own pointer/bounds checks on the steps are probe tier only (tree.*.m*, 14 GB each), "
              "so memory safety inside the claimed tiers rests on the walk/pool/ledger oracle; trees of more than 6 nodes, String keys, Tree_Assign and allocation failure are out.")
