from vlib.core import Ob
from props._compose import pick
ID = "C11"
LEVEL = "model_checking"
FUNCTIONS = ["range_stack", "Range_Iter_Init", "Range_Iter_Next", "Range_Iter_Last", "Range_Iter_Prev", "Range_Len", "Range_Get", "iter_init", "iter_next", "iter_last", "iter_prev", "len", "get"]
ASSUMPTIONS = []
EXPLANATION = "bounded symbolic execution of the iteration protocol of every iterable against reference sequences"
US = ["Type_Scan.0:24", "Type_Scan.1:24", "strcmp.0:24"]
OBLIGATIONS = [
    Ob("range.iter.b6", "C11/range.c", defs=["B=6"], unwind=17, unwindset=US, checks=["overflow", "div0"], tiers=("quick", "thorough"), timeout=900,
       desc="Range forward/backward iteration, len, get for start,stop in [-6,6], step in [-3,3]"),
    Ob("range.len64", "C11/range_len64.c", unwind=5, unwindset=US, checks=["overflow", "div0"], tiers=("thorough",), timeout=3600,
       desc="Range_Len vs closed form over 62-bit operands"),
]
OBLIGATIONS += pick("C02", r"table\.iter\.") + pick("C03", r"tree\.iter\.") + pick("C04", r"array\.iter\.")
LEVEL_TEXT = ("Bounded model checking of the iteration protocol: Range through the full real dispatch for all start/stop in [-B,B] and step in [-3,3]; "
              "container cursors (Array, Table, Tree) from arbitrary valid states in the C04/C02/C03 harnesses, whose obligations this check also runs.")
LEVEL_NOTE = "Trusted: cbmc; reference sequences written from the definitions in the property text. Slice/Zip/Filter/Map: see known findings and DESIGN.md."
