from vlib.core import Ob
from props._compose import pick
ID = "C11"
LEVEL = "model_checking"
FUNCTIONS = ["slice_stack", "Slice_Arg", "Slice_Iter_Init", "Slice_Iter_Next", "Slice_Iter_Last", "Slice_Iter_Prev", "Slice_Len", "Slice_Get", "zip_stack", "Zip_Iter_Init", "Zip_Iter_Next", "Zip_Iter_Last", "Zip_Iter_Prev", "Zip_Len", "Zip_Get",
             "Filter_Iter_Init", "Filter_Iter_Next", "Filter_Iter_Last", "Filter_Iter_Prev", "Map_Iter_Init", "Map_Iter_Next", "Map_Iter_Last", "Map_Iter_Prev", "Map_Len", "Map_Get", "range_stack", "Range_Iter_Init", "Range_Iter_Next", "Range_Iter_Last", "Range_Iter_Prev", "Range_Len", "Range_Get", "iter_init", "iter_next", "iter_last", "iter_prev", "len", "get"]
ASSUMPTIONS = []
EXPLANATION = "bounded symbolic execution of the iteration protocol of every iterable against reference sequences"
US = ["Type_Scan.0:24", "Type_Scan.1:24", "strcmp.0:24"]
OBLIGATIONS = [
    Ob("range.iter.b6", "C11/range.c", defs=["B=6"], unwind=17, unwindset=US, checks=["overflow", "div0"], tiers=("quick", "thorough"), timeout=900,
       desc="Range forward/backward iteration, len, get for start,stop in [-6,6], step in [-3,3]"),
    Ob("range.len64", "C11/range_len64.c", unwind=5, unwindset=US, checks=["overflow", "div0"], tiers=("probe",), timeout=3600,
       desc="Range_Len vs closed form over 62-bit operands"),
]
RC = ["iter_init:v_iter_init", "iter_next:v_iter_next", "iter_last:v_iter_last", "iter_prev:v_iter_prev", "iter_type:v_iter_type", "len:v_len", "get:v_get", "call_with:v_call"]
def V(name, op, nmax=3, extra=(), **kw):
    us = ["Type_Scan.0:40", "Type_Scan.1:40", "strcmp.0:26", "v_len.0:8", "idxA.0:%d" % (nmax + 2), "idxB.0:%d" % (nmax + 2), "memcpy.0:8", "memcpy.1:40"]
    return Ob("views.%s.n%d" % (name, nmax), "C11/views.c", defs=["OP=%s" % op, "NMAX=%d" % nmax] + list(extra), replace=["Iter.c"], replace_calls=kw.pop("replace_calls", RC),
              unwind=nmax + 4, unwindset=us, checks=["bounds", "pointer", "overflow"], tiers=("quick", "thorough"), object_bits=14, timeout=900, **kw)
VIEWS = [V("slice.omit%d" % o, "OP_SLICE", extra=["OMIT=%d" % o]) for o in range(4)] + [V("slice_mem.omit%d" % o, "OP_SLICE", extra=["OMIT=%d" % o, "WITH_MEM"], replace_calls=RC + ["eq:v_eq"]) for o in (0, 3)] + [V("zip", "OP_ZIP"), V("filter", "OP_FILTER"), V("map", "OP_MAP")]
OBLIGATIONS += VIEWS
OBLIGATIONS += pick("C04", r"(tuple|list)\.iter(_dup)?\.")
OBLIGATIONS += pick("C02", r"table\.iter\.") + pick("C03", r"tree\.iter\.") + pick("C04", r"array\.iter\.")
LEVEL_TEXT = ("Bounded model checking of the iteration protocol: Range through the full real dispatch for all start/stop in [-B,B] and step in [-3,3]; "
              "container cursors (Array, Table, Tree) from arbitrary valid states in the C04/C02/C03 harnesses, whose obligations this check also runs.")
LEVEL_NOTE = "Trusted: cbmc; reference sequences written from the definitions in the property text. Slice (all four omitted-bound forms, int64 start/stop, steps in [-3,3]), Zip of two inputs, Filter and Map over abstract underlying iterables of <= 3 items that assert they are never read outside; view nesting and enumerate are not covered."
