from vlib.core import Ob
ID = "C11"
LEVEL = "model_checking"
FUNCTIONS = ["range_stack", "Range_Iter_Init", "Range_Iter_Next", "Range_Iter_Last", "Range_Iter_Prev", "Range_Len", "Range_Get", "iter_init", "iter_next", "iter_last", "iter_prev", "len", "get"]
ASSUMPTIONS = []
EXPLANATION = "bounded symbolic execution of the iteration protocol of every iterable against reference sequences"
US = ["Type_Scan.0:24", "Type_Scan.1:24", "strcmp.0:24"]
OBLIGATIONS = [
    Ob("range.iter.b6", "C11/range.c", defs=["B=6"], unwind=17, unwindset=US, checks=["overflow", "div0"], tiers=("probe",), timeout=600,
       desc="Range forward/backward iteration, len, get for start,stop in [-6,6], step in [-3,3]"),
    Ob("range.len64", "C11/range_len64.c", unwind=5, unwindset=US, checks=["overflow", "div0"], tiers=("probe",), timeout=600,
       desc="Range_Len vs closed form over 62-bit operands"),
]
LEVEL_TEXT = "x"
LEVEL_NOTE = "x"
