from vlib.core import Ob
from props._compose import pick
ID = "C12"
LEVEL = "model_checking"
FUNCTIONS = ["Type_Of", "Type_Method_At_Offset", "method_at_offset", "type_method_at_offset", "cast", "dealloc", "del_raw", "String_Resize", "String_Concat", "String_Assign",
             "Tuple_Push", "Tuple_Pop", "Tuple_Pop_At", "Tuple_Resize", "Tuple_Get", "Tuple_Set", "Array_Get", "Array_Set", "Array_Pop", "Array_Pop_At", "Array_Push_At", "Array_Rem",
             "Table_Get", "Table_Rem", "Tree_Get", "Tree_Rem", "Range_Get", "String_Rem", "print_to_with"]
ASSUMPTIONS = []
EXPLANATION = "every failing operation is executed symbolically with a free invalid argument; the throw oracle checks the exception object and that the operand is unchanged at the throw point"
US = ["Table_Ideal_Size.0:26", "Type_Scan.0:40", "Type_Scan.1:40", "strcmp.0:26", "strlen.0:8", "Tuple_Len.0:8", "memmove.0:8", "memmove.1:8", "memmove.2:40", "memmove.3:40", "watch.0:10", "verif_on_throw.0:10"]
NCASES = 31
DISPATCH = [Ob("misuse.case%02d" % c, "C12/dispatch_errors.c", defs=["CASE=%d" % c], unwind=10, unwindset=US, checks=["bounds", "pointer"], tiers=("quick", "thorough"), object_bits=14,
               desc="dispatcher-level misuse case %d (see harness)" % c) for c in range(1, NCASES + 1)]
OBLIGATIONS = (
    DISPATCH
    + pick("C02", r"table\.(remabsent\.home3|getabsent\.home4)\.ns5|table\.resize\.ns5", tiers=("quick", "thorough"))
    + pick("C03", r"tree\.remabsent\.q[0-5]$", tiers=("quick", "thorough"))
    + pick("C04", r"(array|list|tuple)\.(bad_index|rem_absent|pop_empty)\.|tuple\.resize\.", tiers=("quick", "thorough"))
    + pick("C16", r"string\.remabsent", tiers=("quick", "thorough"))
    + pick("C11", r"range\.iter", tiers=("quick", "thorough"))
    + pick("C14", r"print\.scanner\.fl3", tiers=("quick", "thorough"))
)
LEVEL_TEXT = ("Bounded model checking: each failing operation (out-of-range index over the whole int64 range, absent key/element, wrong type, NULL, unimplemented class or member, "
              "non-heap reallocation, impossible resize, too few format arguments) executed symbolically on the real code from arbitrary valid states within the C02/C03/C04/C16 bounds; "
              "the oracle runs at the throw point: documented exception object, operand bytes and ownership ledger unchanged, nothing invoked.")
LEVEL_NOTE = ("Trusted: cbmc; exception_throw replaced by the oracle + path end (what longjmp does); 'remains fully usable afterwards' follows from 'state unchanged' plus the step obligations of "
              "C02-C04 (same state); OutOfMemoryError paths are not covered.")
