from vlib.core import Ob
ID = "C17"
LEVEL = "model_checking"
FUNCTIONS = ["alloc_by", "del_by", "alloc", "alloc_root", "alloc_raw", "new_with", "new_root_with", "new_raw_with", "del", "del_root", "del_raw", "GC_Rehash", "GC_Mark_And_Recurse", "GC_Set", "GC_Set_Ptr", "GC_Mem_Ptr", "GC_Rem", "GC_Rem_Ptr", "GC_Sweep", "GC_Mark", "GC_Mark_Item", "GC_Recurse", "GC_Mark_Stack", "GC_Probe", "GC_Hash",
             "GC_Resize_More", "GC_Resize_Less", "GC_Ideal_Size"]
ASSUMPTIONS = []
EXPLANATION = "inductive steps of the collector's registry operations from an arbitrary valid registry with an uninterpreted address hash"
RC = ["GC_Hash:verif_gc_hash", "GC_Rehash:verif_gc_rehash_stub"]
def G(name, op, ns, tiers, extra=(), rc=RC, nc=4, extra_unwind=(), **kw):
    us = ["GC_Sweep.%d:%d" % (i_, 2 * ns + 4) for i_ in range(6)] + ["Type_Scan.0:24", "Type_Scan.1:24", "strcmp.0:24", "cell_index.0:%d" % (nc + 2), "GC_Ideal_Size.0:26", "verif_memset_w.0:30", "verif_memcpy_w.0:6"]
    for f, k in [("GC_Set_Ptr", 1), ("GC_Mem_Ptr", 1), ("GC_Rem_Ptr", 3), ("GC_Mark_Item", 1), ("GC_Sweep", 0), ("GC_Mark", 1), ("GC_Mark_Stack", 2), ("GC_Recurse", 1)]:
        for i in range(k):
            us.append("%s.%d:%d" % (f, i, ns + 3))
    keys = set(x.split(":")[0] for x in extra_unwind)
    us = [x for x in us if x.split(":")[0] not in keys] + list(extra_unwind)
    return Ob("gc.%s.ns%d" % (name, ns), "C17/gc_step.c", defs=["NS=%d" % ns, "NC=%d" % nc, "OP=%s" % op, "CELLO_VERIF"] + list(extra), replace=["GC.c"],
              unwind=max(ns, nc) + 3, unwindset=us, checks=["bounds", "pointer", "div0"], tiers=tiers, replace_calls=rc, mem_gb=kw.pop("mem_gb", 8),
              desc="collector %s from an arbitrary valid %d-slot registry, %d managed cells" % (name, ns, nc), **kw)
Q = ("quick", "thorough")
T = ("thorough",)
RECB = ["verif_destruct:3", "GC_Rem:3", "GC_Rem_Ptr:3", "verif_dealloc:3", "GC_Sweep.3:4", "GC_Sweep.1:9", "GC_Sweep.0:4", "GC_Sweep.2:7", "GC_Rem_Ptr.0:4", "GC_Rem_Ptr.1:4", "GC_Rem_Ptr.2:4", "GC_Ideal_Size.0:26"]
MS = ["GC_Mark:verif_mark_stub", "GC_Sweep:verif_sweep_stub"]
OBLIGATIONS = (
    [G("hash", "OP_HASH", 5, Q, rc=[])]
    + [G("set.home%d" % h, "OP_SET", 5, Q if h in (0, 2, 4) else T, ["HOME=%d" % h], rc=RC + MS) for h in range(5)]
    + [G("mem.home%d" % h, "OP_MEM", 5, Q if h in (0, 3) else T, ["HOME=%d" % h]) for h in range(5)]
    + [G("rem.home%d" % h, "OP_REM", 5, Q if h in (1, 4) else T, ["HOME=%d" % h, "NO_OWNERSHIP"]) for h in range(5)]
    + [G("rem.stopped.home1", "OP_REM", 5, Q, ["HOME=1", "NO_OWNERSHIP", "STOPPED"], known={"rem: the object is finalised once": "del-while-stopped", "rem: no longer a member": "del-while-stopped"})]
    + [G("sweep.noown.nc3", "OP_SWEEP", 5, Q, ["NO_OWNERSHIP"], nc=3, timeout=1800),
       G("sweep.own", "OP_SWEEP_OWN", 5, ("probe",), nc=2, timeout=1800, extra_unwind=RECB), G("sweep.own.swap", "OP_SWEEP_OWN", 5, ("probe",), ["SWAP"], nc=2, timeout=1800, extra_unwind=RECB),
       G("rem_pending.home1", "OP_REM_PENDING", 5, Q, ["HOME=1", "NO_OWNERSHIP"], nc=3), G("rem_pending.home4", "OP_REM_PENDING", 5, Q, ["HOME=4", "NO_OWNERSHIP"], nc=3),
       G("rehash.5to11", "OP_REHASH", 5, Q, ["NS2=11"], rc=["GC_Hash:verif_gc_hash", "GC_Set_Ptr:verif_set_ptr_stub"], extra_unwind=["GC_Rehash.0:8", "verif_calloc_rh.0:14"]),
       G("rehash.5to1", "OP_REHASH", 5, Q, ["NS2=1"], rc=["GC_Hash:verif_gc_hash", "GC_Set_Ptr:verif_set_ptr_stub"], extra_unwind=["GC_Rehash.0:8", "verif_calloc_rh.0:4"]),
       G("rehash.11to5", "OP_REHASH", 11, Q, ["NS2=5"], rc=["GC_Hash:verif_gc_hash", "GC_Set_Ptr:verif_set_ptr_stub"], extra_unwind=["GC_Rehash.0:14", "verif_calloc_rh.0:8"]),
       G("rehash.11to23", "OP_REHASH", 11, T, ["NS2=23"], rc=["GC_Hash:verif_gc_hash", "GC_Set_Ptr:verif_set_ptr_stub"], nc=6, extra_unwind=["GC_Rehash.0:14", "verif_calloc_rh.0:26"]),
       G("rehash.full.5to11.nc2", "OP_REHASH", 5, ("probe",), ["NS2=11", "REHASH_FULL"], rc=["GC_Hash:verif_gc_hash"], nc=2, extra_unwind=["GC_Rehash.0:8", "GC_Set_Ptr.0:14", "GC_Mem_Ptr.0:14", "verif_calloc_rh.0:14", "inv.0:14", "inv.1:14", "inv.2:14", "reg_find.0:14"], timeout=1800),
       G("mark_item", "OP_MARK_ITEM", 5, Q, rc=RC + ["GC_Recurse:verif_recurse_stub"]),
       G("mark_item.padded", "OP_MARK_ITEM", 5, Q, ["PADMASK=5"], rc=RC + ["GC_Recurse:verif_recurse_stub"]),
       G("recurse", "OP_RECURSE", 5, Q, rc=RC + ["GC_Mark_Item:verif_item_stub"]),
       G("mark_and_recurse", "OP_MARK_AND_RECURSE", 5, Q, rc=RC + ["GC_Mark_Item:verif_item_stub", "GC_Recurse:verif_recurse_stub"]),
       ] + [G("recurse.mark_instance.d%d" % d_, "OP_RECURSE_HOLDER", 5, Q, ["CC=0", "DD=%d" % d_], rc=RC + ["GC_Mark_Item:verif_item_stub"], extra_unwind=["GC_Recurse:4", "GC_Mark_And_Recurse:4"]) for d_ in range(3)] + [
       G("mark_top", "OP_MARK_TOP", 5, Q, rc=RC + ["GC_Mark_Item:verif_item_stub", "GC_Recurse:verif_recurse_stub"])]
    # thorough: 4 cells in the sweep, 11-slot registry for set/mem/rem
    + [G("sweep.noown.nc4", "OP_SWEEP", 5, T, ["NO_OWNERSHIP"], nc=4, timeout=3600, mem_gb=16)]
    + [G("set.home%d" % h, "OP_SET", 11, ("probe",), ["HOME=%d" % h], rc=RC + MS, nc=6, timeout=3600, mem_gb=16) for h in range(11)]
    + [G("mem.home%d" % h, "OP_MEM", 11, T if h in (0, 5, 10) else ("probe",), ["HOME=%d" % h], nc=6, timeout=3600, mem_gb=16) for h in range(11)]
    + [G("rem.home%d" % h, "OP_REM", 11, ("probe",), ["HOME=%d" % h, "NO_OWNERSHIP"], nc=6, timeout=3600, mem_gb=16) for h in range(11)]
)
AUS = ["Type_Scan.0:40", "Type_Scan.1:40", "strcmp.0:26", "memcpy.0:8", "memset.0:8", "dealloc.0:10"]
OBLIGATIONS = list(OBLIGATIONS) + [
    Ob("alloc_layer.case%d%s" % (c_, "" if cfg == "default" else "." + cfg), "C17/alloc_layer.c", defs=["CASE=%d" % c_], replace=["Alloc.c"], config=cfg, unwind=12, unwindset=AUS, checks=["bounds", "pointer"], tiers=Q,
       desc="alloc/new x standard|root|raw: registration and root flag; del x standard|root|raw (%s)" % cfg)
    for c_ in (1, 2) for cfg in ("default", "ndebug", "ngc")]
LEVEL_TEXT = ("Bounded model checking of the real GC.c registry: set / mem / rem / sweep as inductive steps from an ARBITRARY valid registry (occupancy, probe layout, root flags, "
              "marks) with the address hash uninterpreted (any collision pattern), one obligation per home slot; the mark phase decomposed into GC_Mark / GC_Mark_Item / GC_Recurse "
              "contracts. 5-slot registry quick, 11-slot thorough.")
LEVEL_NOTE = ("Trusted: cbmc; GC_Hash and GC_Rehash (and GC_Mark/GC_Sweep inside GC_Set) are replaced by recorders inside the steps and discharged separately; destruct/dealloc are a ledger; "
              "the machine stack is a harness array supplied through the CELLO_VERIF hook; thread-local storage marking is not in this harness.")
