from vlib.core import Ob
ID = "C17"
LEVEL = "model_checking"
FUNCTIONS = ["GC_Set", "GC_Set_Ptr", "GC_Mem_Ptr", "GC_Rem", "GC_Rem_Ptr", "GC_Sweep", "GC_Mark", "GC_Mark_Item", "GC_Recurse", "GC_Mark_Stack", "GC_Probe", "GC_Hash",
             "GC_Resize_More", "GC_Resize_Less", "GC_Ideal_Size"]
ASSUMPTIONS = []
EXPLANATION = "inductive steps of the collector's registry operations from an arbitrary valid registry with an uninterpreted address hash"
RC = ["GC_Hash:verif_gc_hash", "GC_Rehash:verif_gc_rehash_stub"]
def G(name, op, ns, tiers, extra=(), rc=RC, nc=4, **kw):
    us = ["GC_Sweep.%d:%d" % (i_, 2 * ns + 4) for i_ in range(6)] + ["Type_Scan.0:24", "Type_Scan.1:24", "strcmp.0:24", "cell_index.0:%d" % (nc + 2), "GC_Ideal_Size.0:26", "verif_memset_w.0:6", "verif_memcpy_w.0:6"]
    for f, k in [("GC_Set_Ptr", 1), ("GC_Mem_Ptr", 1), ("GC_Rem_Ptr", 3), ("GC_Mark_Item", 1), ("GC_Sweep", 0), ("GC_Mark", 1), ("GC_Mark_Stack", 2), ("GC_Recurse", 1)]:
        for i in range(k):
            us.append("%s.%d:%d" % (f, i, ns + 3))
    return Ob("gc.%s.ns%d" % (name, ns), "C17/gc_step.c", defs=["NS=%d" % ns, "NC=%d" % nc, "OP=%s" % op, "CELLO_VERIF"] + list(extra), replace=["GC.c"],
              unwind=max(ns, nc) + 3, unwindset=us, checks=["bounds", "pointer", "div0"], tiers=tiers, replace_calls=rc, mem_gb=8,
              desc="collector %s from an arbitrary valid %d-slot registry, %d managed cells" % (name, ns, nc), **kw)
P = ("probe",)
OBLIGATIONS = (
    [G("hash", "OP_HASH", 5, P, rc=[], timeout=300)]
    + [G("set.home%d" % h, "OP_SET", 5, P, ["HOME=%d" % h], rc=RC + ["GC_Mark:verif_mark_stub", "GC_Sweep:verif_sweep_stub"], timeout=600) for h in range(5)]
    + [G("mem.home%d" % h, "OP_MEM", 5, P, ["HOME=%d" % h], timeout=600) for h in range(5)]
    + [G("rem.home%d" % h, "OP_REM", 5, P, ["HOME=%d" % h, "NO_OWNERSHIP"], timeout=600) for h in range(5)]
    + [G("sweep.noown", "OP_SWEEP", 5, P, ["NO_OWNERSHIP"], timeout=900), G("sweep.own", "OP_SWEEP", 5, P, timeout=900)]
    + [G("mark", "OP_MARK", 5, P, nc=3, timeout=900)]
)
LEVEL_TEXT = "x"
LEVEL_NOTE = "x"
