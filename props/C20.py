from vlib.core import Ob
ID = "C20"
LEVEL = "model_checking"
FUNCTIONS = ["File_New", "File_Del", "File_Open", "File_Close", "File_Seek", "File_Tell", "File_Flush", "File_EOF", "File_Read", "File_Write",
             "sopen", "sclose", "sseek", "stell", "sflush", "seof", "sread", "swrite", "start_in", "stop_in", "method_at_offset"]
ASSUMPTIONS = []
EXPLANATION = "symbolic execution of the real File.c wrappers over a contract model of stdio"
US = ["Type_Scan.0:40", "Type_Scan.1:40", "strcmp.0:26", "vf_of.0:6", "vf_open_streams.0:6"]
def F(name, op, tiers, nb=4, k=4, **kw):
    defs = ["OP=%s" % op, "NB=%d" % nb, "K=%d" % k, "VF_MAX=%d" % (nb + 2)]
    if name.startswith("lifecycle."):
        defs.append("OPSEQ=" + ",".join(name.split(".")[1]))
        name = name.replace(".", ".", 1)
    return Ob("file.%s" % name, "C20/file_stream.c", defs=defs, srcs_extra=["env_stdio.c"],
              unwind=max(nb, k) + 4, unwindset=US, checks=["bounds", "pointer"], tiers=tiers, object_bits=14, **kw)
import itertools
QSEQ = [(0, 0), (0, 1), (1,), (0, 1, 1), (0, 2, 3), (0, 3, 0), (2,), (0, 0, 1), (3,), (4,), (5,), (6,), (7,), (0, 1, 5), (0, 2, 2), (0, 1, 0)]
ALLSEQ = QSEQ + [s_ for s_ in itertools.product((0, 1, 2, 3, 5), repeat=3) if s_ not in QSEQ]
OBLIGATIONS = [
    F("roundtrip.nb4", "OP_ROUNDTRIP", ("quick", "thorough"), nb=4, timeout=900, desc="write/close/reopen/read round trip, 4 symbolic bytes, symbolic chunking and seek offset"),
] + [
    F("lifecycle.%s" % "".join(str(x) for x in seq), "OP_LIFECYCLE", (("quick", "thorough") if seq in QSEQ else ("thorough",)), k=len(seq), timeout=1800,
      desc="stream operation sequence %s (0 open, 1 close, 2 with, 3 write, 4 read, 5 tell, 6 seek+flush, 7 eof) with symbolic fopen/fclose failures" % (seq,))
    for seq in ALLSEQ
] + [
    # the not-open guards are part of the contract in every build configuration (CELLO_NDEBUG compiles the other check families out)
    F("lifecycle.%s.ndebug" % "".join(str(x) for x in seq), "OP_LIFECYCLE", ("quick", "thorough"), k=len(seq), timeout=1800, config="ndebug",
      desc="stream operation sequence %s in the CELLO_NDEBUG configuration" % (seq,))
    for seq in [(3,), (4,), (5,), (6,), (7,), (1,), (0, 1, 3), (0, 1, 4), (0, 0, 1)]
]
LEVEL_TEXT = ("Bounded model checking of the real File.c wrappers through the full dispatch over a contract model of stdio: symbolic bytes, chunkings and seek offsets; "
              "symbolic sequences of stream operations with fopen/fclose failures injected.")
LEVEL_NOTE = "Trusted: cbmc; lib/env_stdio.c (one in-memory file, handles validated on every call); the real libc/kernel and formatted I/O on files (vfprintf/vfscanf) are outside; Process/popen not covered."
