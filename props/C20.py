from vlib.core import Ob
ID = "C20"
LEVEL = "model_checking"
FUNCTIONS = ["File_New", "File_Del", "File_Open", "File_Close", "File_Seek", "File_Tell", "File_Flush", "File_EOF", "File_Read", "File_Write",
             "sopen", "sclose", "sseek", "stell", "sflush", "seof", "sread", "swrite", "start_in", "stop_in", "method_at_offset"]
ASSUMPTIONS = []
EXPLANATION = "symbolic execution of the real File.c wrappers over a contract model of stdio"
US = ["Type_Scan.0:40", "Type_Scan.1:40", "strcmp.0:26", "vf_of.0:6", "vf_open_streams.0:6"]
def F(name, op, tiers, nb=4, k=4, **kw):
    return Ob("file.%s" % name, "C20/file_stream.c", defs=["OP=%s" % op, "NB=%d" % nb, "K=%d" % k, "VF_MAX=%d" % (nb + 2)], srcs_extra=["env_stdio.c"],
              unwind=max(nb, k) + 4, unwindset=US, checks=["bounds", "pointer"], tiers=tiers, object_bits=14, **kw)
OBLIGATIONS = [
    F("roundtrip.nb4", "OP_ROUNDTRIP", ("quick", "thorough"), nb=4, timeout=900, desc="write/close/reopen/read round trip, 4 symbolic bytes, symbolic chunking and seek offset"),
    F("lifecycle.k2", "OP_LIFECYCLE", ("probe",), k=2, timeout=900, desc="symbolic sequences of 3 stream operations with fopen/fclose failures"),
]
LEVEL_TEXT = ("Bounded model checking of the real File.c wrappers through the full dispatch over a contract model of stdio: symbolic bytes, chunkings and seek offsets; "
              "symbolic sequences of stream operations with fopen/fclose failures injected.")
LEVEL_NOTE = "Trusted: cbmc; lib/env_stdio.c (one in-memory file, handles validated on every call); the real libc/kernel and formatted I/O on files (vfprintf/vfscanf) are outside; Process/popen not covered."
