from vlib.core import Ob
from gen.celloh import gen_type_tables
ID = "C08"
LEVEL = "model_checking"
FUNCTIONS = ["type_instance", "Type_Instance", "Type_Scan", "type_implements", "Type_Implements", "instance", "implements", "type_of", "Type_Of",
             "method_at_offset", "type_method_at_offset", "Type_Method_At_Offset", "implements_method_at_offset", "cast", "Type_New", "Type_Alloc"]
ASSUMPTIONS = []
EXPLANATION = "symbolic execution of the real dispatcher on every built-in (type, class) pair and on run-time types"
US = ["Type_Scan.0:40", "Type_Scan.1:40", "strcmp.0:26", "streq.0:26", "raw_scan.0:42"]
NCH = 8
OBLIGATIONS = [
    Ob("matrix.chunk%d" % c, "C08/builtin_matrix.c", defs=["CHUNK=%d" % c, "NCHUNK=%d" % NCH], unwind=80, unwindset=US, checks=["bounds", "pointer"],
       tiers=("quick", "thorough"), timeout=900, gen=gen_type_tables, object_bits=16, desc="cold/warm/reordered lookups vs raw scan, built-in types %d mod %d x all classes" % (c, NCH))
    for c in range(NCH)
]
OBLIGATIONS += [Ob("runtime_type" + ("" if cfg == "default" else "." + cfg), "C08/runtime_type.c", replace=["Type.c"], config=cfg, unwind=40, unwindset=US + ["Tuple_Len.0:8", "memcpy.0:8", "strlen.0:12"], checks=["bounds", "pointer"],
                   tiers=("quick", "thorough"), timeout=900, object_bits=14, desc="run-time type built by Type_New (3 instances, symbolic order), all lookups (%s configuration)" % cfg) for cfg in ("default", "nocache", "ndebug")]
LEVEL_TEXT = ("Symbolic execution of the real dispatcher for EVERY (built-in type, class) pair declared in the current Cello.h (tables regenerated per run): cold, warm and "
              "re-ordered lookups against an independent raw scan of the type record; run-time types and error paths in separate obligations.")
LEVEL_NOTE = "Trusted: cbmc; the raw-scan oracle relies on the record layout written by the Cello() macro. Concurrent first lookups are not explored (C13)."
