from vlib.core import Ob
ID = "C02"
LEVEL = "model_checking"
FUNCTIONS = ["Table_New", "Table_Set", "Table_Set_Move", "Table_Rehash", "Table_Resize_More", "Table_Resize_Less", "Table_Ideal_Size",
             "Table_Rem", "Table_Get", "Table_Mem", "Table_Len", "Table_Iter_Init", "Table_Iter_Next", "Table_Iter_Last", "Table_Iter_Prev",
             "Table_Resize", "Table_Clear", "Table_Del", "Table_Probe", "Table_Key", "Table_Val", "Table_Key_Hash"]
ASSUMPTIONS = []
EXPLANATION = "inductive step of each Table operation from an arbitrary valid state with an uninterpreted hash function"
def US(ns, ns2):
    big = max(ns, ns2)
    words = 12            # Table_Step / 8 with a 16-byte key, a 24-byte value and the 3-word default header
    L = ["harness.%d:%d" % (i_, 2 * big + 4) for i_ in range(6)] + ["owns.0:26", "elem_live_count.0:26", "Type_Scan.0:24", "Type_Scan.1:24", "strcmp.0:24", "Table_Ideal_Size.0:26",
         "memcpy.0:%d" % (words + 2), "memset.0:%d" % (words + 2), "memmove.0:%d" % (words + 2),
         "words_equal.0:%d" % (ns * words + 2), "snapshot.0:%d" % (ns * words + 2)]
    for f, n in [("Table_Set_Move", 1), ("Table_Mem", 1), ("Table_Rem", 2), ("Table_Mark", 1), ("Table_Get", 1), ("Table_Iter_Next", 1), ("Table_Iter_Prev", 1),
                 ("Table_Iter_Init", 1), ("Table_Iter_Last", 1), ("Table_Rehash", 1), ("Table_Del", 1), ("Table_Clear", 1)]:
        for i in range(n):
            L.append("%s.%d:%d" % (f, i, big + 2))
    return L
def T(name, op, ns, tiers, timeout=900, mem=8, d=6, ns2=None, hbits=None, **kw):
    ns2 = ns2 or ns
    return Ob("table.%s.ns%d" % (name, ns), "C02/table_step.c", defs=["NS=%d" % ns, "OP=%s" % op, "ELEM_D=%d" % d] + (["HBITS=%d" % hbits] if hbits else []),
              replace=["Table.c"], unwind=max(ns, ns2, d) + 2, unwindset=US(ns, ns2), checks=["bounds", "pointer", "div0"],
              tiers=tiers, timeout=timeout, mem_gb=mem, desc="Table %s step from an arbitrary valid %d-slot state" % (name, ns), **kw)
Q = ("quick", "thorough")
P = ("probe",)
def T2(name, op, ns, tiers, extra_defs=(), **kw):
    o = T(name, op, ns, tiers, **kw)
    o.defs += list(extra_defs)
    return o
STUB = ["Table_Rehash:verif_rehash_stub"]
def TH(name, op, ns, tiers, extra=(), **kw):
    """one obligation per home slot of the key operated on"""
    return [T2("%s.home%d" % (name, h), op, ns, tiers, ["HOME=%d" % h] + list(extra), **kw) for h in range(ns)]
TH_ = ("thorough",)
def split(obs, quick_homes):
    """home slots in quick_homes run in both tiers, the others in thorough only"""
    for o in obs:
        h = int(o.name.split("home")[1].split(".")[0])
        o.tiers = Q if h in quick_homes else TH_
    return obs
OBLIGATIONS = (
    [T2("init", "OP_INIT", 1, Q, ["HBITS=3"], ns2=5, mem=6)]
    + split(TH("set", "OP_SET", 5, Q, replace_calls=STUB, mem=6), (0, 2, 4))
    + split(TH("rem", "OP_REM", 5, Q, replace_calls=STUB, mem=6), (1, 4))
    + split(TH("get", "OP_GET", 5, Q, mem=6), (0, 4))
    + split(TH("remabsent", "OP_REM_ABSENT", 5, Q, replace_calls=STUB, mem=6), (3,))
    + split(TH("getabsent", "OP_GET_ABSENT", 5, Q, mem=6), (4,))
    + [T("iter", "OP_ITER", 5, Q, mem=6), T("del", "OP_DEL", 5, Q, mem=6), T("mark", "OP_MARK", 5, Q, mem=6), T("resize", "OP_RESIZE", 5, Q, replace_calls=STUB, mem=6),
       T2("rehash.1to5", "OP_REHASH", 1, P, ["NS2=5", "HBITS=3"], ns2=5, mem=8, timeout=3600),
       T2("rehash.5to1", "OP_REHASH", 5, P, ["NS2=1", "HBITS=3"], mem=8, timeout=3600),
       T2("clearset", "OP_CLEAR_SET", 5, Q, ["HOME=0"], mem=6)]
    # thorough: 11-slot tables (every home slot), growth/shrink rehashes between 5 and 11 slots with 6-bit hashes
    # (all residue pairs modulo 5 and 11), and the 5-slot steps again with unrestricted 64-bit hash values
    + TH("set", "OP_SET", 11, P, replace_calls=STUB, timeout=3600, mem=16, d=11)      # > 30 min each with 24-byte values: probe only (not claimed)
    + TH("rem", "OP_REM", 11, P, replace_calls=STUB, timeout=3600, mem=16, d=11)
    + [o_ for o_ in TH("get", "OP_GET", 11, TH_, timeout=3600, mem=16, d=11) if o_.name.split(".")[2] in ("home0", "home5", "home10")]
    + [T("iter", "OP_ITER", 11, TH_, timeout=3600, mem=16, d=11),
       T2("rehash.5to11", "OP_REHASH", 5, P, ["NS2=11", "HBITS=6"], ns2=11, timeout=7200, mem=24),
       T2("rehash.11to5", "OP_REHASH", 11, P, ["NS2=5", "HBITS=6"], timeout=7200, mem=24, d=11)]
    + [T2("set.h64.home%d" % h, "OP_SET", 5, P, ["HOME=%d" % h, "HFULL"], replace_calls=STUB, timeout=3600, mem=16) for h in range(5)]
)
_show = T("show", "OP_SHOW", 5, Q, mem=6, replace_calls=["print_to_with:v_print_rec"]); _show.unwindset = list(_show.unwindset) + ["v_print_rec.0:14"]
OBLIGATIONS = list(OBLIGATIONS) + [_show]
def TA(m, tiers):
    return Ob("table.assign.m%d" % m, "C02/table_assign.c", defs=["NS=5", "OP=0", "ELEM_D=6", "MLEN=%d" % m], replace=["Table.c"], unwind=8,
              unwindset=[x for x in US(5, 5) if not x.startswith("harness.")] + ["harness.%d:26" % i_ for i_ in range(8)] + ["key_id.0:8", "Table_Assign.0:8", "model_get.0:8", "inv.0:8", "inv.1:8", "inv.2:8"],
              replace_calls=["len:v2_len", "get:v2_get", "implements_method_at_offset:v2_implements", "key_type:v2_key_type", "val_type:v2_val_type"],
              checks=["bounds", "pointer", "div0"], tiers=tiers, timeout=1800, mem_gb=10, desc="Table assign onto an arbitrary valid 5-slot Table from an abstract source with %d entries (arbitrary hashes and values)" % m)
OBLIGATIONS = list(OBLIGATIONS) + [TA(0, Q), TA(1, Q), TA(2, Q), TA(3, TH_ if "TH_" in dir() else ("thorough",))]
# the rehash in assume-guarantee form (harness/C02/table_rehash_calls.c): Table_Rehash over a recorder of its kernel, and the kernel with move = true
def RH(ns, ns2):
    return Ob("table.rehash_calls.%dto%d" % (ns, ns2), "C02/table_rehash_calls.c", defs=["NS=%d" % ns, "NS2=%d" % ns2, "OP=0", "CASE=1", "ELEM_D=6"], replace=["Table.c"], unwind=max(ns, ns2) + 3,
              unwindset=[x for x in US(ns, ns2) if not x.startswith("harness.")] + ["harness.%d:%d" % (i_, 12 * max(ns, ns2) + 4) for i_ in range(8)] + ["Table_Rehash.0:%d" % (ns + 2)],
              replace_calls=["Table_Set_Move:v_set_move_rec"], checks=["bounds", "pointer", "div0"], tiers=Q, timeout=900, mem_gb=8, desc="Table_Rehash %d -> %d over a recorder of Table_Set_Move: fresh storage, every entry handed over once as a move, old storage released" % (ns, ns2))
OBLIGATIONS += [RH(5, 11), RH(5, 1), RH(1, 5), RH(11, 5),
                Ob("table.setmove_move.ns5", "C02/table_rehash_calls.c", defs=["NS=5", "OP=0", "CASE=2", "ELEM_D=6"], replace=["Table.c"], unwind=8, unwindset=US(5, 5), checks=["bounds", "pointer", "div0"], tiers=Q, timeout=1800, mem_gb=8,
                   desc="Table_Set_Move with move = true (the rehash kernel): whole key and (wider) value moved with their tokens")]
LEVEL_TEXT = ("Bounded model checking of the real Table.c: every operation is executed symbolically from an ARBITRARY valid slot layout "
              "(occupancy, keys, values, probe distances, wrap-around, uninterpreted hash function) -- one inductive step per operation and per home slot, "
              "so operation histories of any length are covered for the slot counts explored (1 and 5 quick; 11 thorough), plus the constructor as base case "
              "and Table_Rehash between consecutive sizes. Claims hold within the stated slot counts and key-domain sizes only.")
LEVEL_NOTE = ("Trusted: cbmc; the probe element (eq/hash/assign/destruct replaced by harness callbacks with an ownership ledger; the dispatcher's routing to the real "
              "Int/String instances is C08/C09/C10); Table_Rehash is stubbed inside set/rem/resize steps and discharged separately (assume-guarantee); "
              "hash values restricted to slot residues (quick) -- 64-bit hashes in the thorough tier; allocation never fails.")
