from vlib.core import Ob
ID = "C02"
LEVEL = "model_checking"
FUNCTIONS = ["Table_New", "Table_Set", "Table_Set_Move", "Table_Rehash", "Table_Resize_More", "Table_Resize_Less", "Table_Ideal_Size",
             "Table_Rem", "Table_Get", "Table_Mem", "Table_Len", "Table_Iter_Init", "Table_Iter_Next", "Table_Iter_Last", "Table_Iter_Prev",
             "Table_Resize", "Table_Clear", "Table_Del", "Table_Probe", "Table_Key", "Table_Val", "Table_Key_Hash"]
ASSUMPTIONS = []
EXPLANATION = "inductive step of each Table operation from an arbitrary valid state with an uninterpreted hash function"
def US(ns, ns2):
    big = max(ns, ns2)
    words = 11            # Table_Step / 8 with 16-byte elements and the 3-word default header
    L = ["owns.0:26", "elem_live_count.0:26", "Type_Scan.0:24", "Type_Scan.1:24", "strcmp.0:24", "Table_Ideal_Size.0:26",
         "memcpy.0:%d" % (words + 2), "memset.0:%d" % (words + 2), "memmove.0:%d" % (words + 2),
         "words_equal.0:%d" % (ns * words + 2), "snapshot.0:%d" % (ns * words + 2)]
    for f, n in [("Table_Set_Move", 1), ("Table_Mem", 1), ("Table_Rem", 2), ("Table_Get", 1), ("Table_Iter_Next", 1), ("Table_Iter_Prev", 1),
                 ("Table_Iter_Init", 1), ("Table_Iter_Last", 1), ("Table_Rehash", 1), ("Table_Del", 1), ("Table_Clear", 1)]:
        for i in range(n):
            L.append("%s.%d:%d" % (f, i, big + 2))
    return L
def T(name, op, ns, tiers, timeout=900, mem=12, d=6, ns2=None, hbits=None, **kw):
    ns2 = ns2 or ns
    return Ob("table.%s.ns%d" % (name, ns), "C02/table_step.c", defs=["NS=%d" % ns, "OP=%s" % op, "ELEM_D=%d" % d] + (["HBITS=%d" % hbits] if hbits else []),
              replace=["Table.c"], unwind=max(ns, ns2, d) + 2, unwindset=US(ns, ns2), checks=["bounds", "pointer", "div0"],
              tiers=tiers, timeout=timeout, mem_gb=mem, desc="Table %s step from an arbitrary valid %d-slot state" % (name, ns), **kw)
Q = ("quick", "thorough")
OBLIGATIONS = [
    T("init", "OP_INIT", 1, Q),
    T("set", "OP_SET", 5, Q),
    T("setmove", "OP_SETMOVE", 5, ("probe",), timeout=600),
    T("setmove", "OP_SETMOVE", 1, ("probe",), timeout=600),
    T("get", "OP_GET", 5, ("probe",), timeout=240),
    T("get.cadical", "OP_GET", 5, ("probe",), timeout=240, backend="cadical"),
    T("get.h3", "OP_GET", 5, ("probe",), timeout=240, hbits=3),
    T("get.h3.cadical", "OP_GET", 5, ("probe",), timeout=240, hbits=3, backend="cadical"),
    T("get.h3.kissat", "OP_GET", 5, ("probe",), timeout=240, hbits=3, backend="kissat"),
    T("get.h3.slice", "OP_GET", 5, ("probe",), timeout=240, hbits=3, extra=["--slice-formula"]),
    T("get.h3.z3", "OP_GET", 5, ("probe",), timeout=240, hbits=3, backend="z3"),
    T("iter", "OP_ITER", 5, ("probe",), timeout=600),
    T("rem", "OP_REM", 5, ("probe",), timeout=600),
    T("remabsent", "OP_REM_ABSENT", 5, ("probe",), timeout=600),
    T("init", "OP_INIT", 1, ("probe",), timeout=600),
]
LEVEL_TEXT = "x"
LEVEL_NOTE = "x"
