from vlib.core import Ob
ID = "C15"
LEVEL = "model_checking"
FUNCTIONS = ["String_Show", "String_Look", "show_to", "look_from", "print_to_with", "scan_from_with", "format_to", "format_from", "format_to_va", "format_from_va",
             "String_Format_To", "String_Format_From", "String_Concat", "String_Clear", "Int_Assign"]
ASSUMPTIONS = []
EXPLANATION = "show/look round trip of symbolic Strings through the real print/scan paths over a model of the C formatting calls they use"
def R(name, slen, tiers, extra=(), **kw):
    big = 3 * slen + 8
    us = ["Type_Scan.0:40", "Type_Scan.1:40", "strcmp.0:26", "strlen.0:%d" % big, "strcpy.0:%d" % big, "strcat.0:%d" % big, "strcat.1:%d" % big, "strchr.0:24",
          "vp_emit.0:%d" % big, "vsscanf.0:%d" % big, "vcap_new.0:40", "vcap_realloc.0:40", "vcap_check.0:40", "vcap_check.1:14", "vcap_find.0:14",
          "String_Show.0:%d" % (slen + 2), "String_Look.0:%d" % (slen + 3), "memcpy.0:4", "memcpy.1:%d" % big, "print_to_with.0:8", "print_to_with.1:8", "print_to_with.2:8",
          "scan_from_with.0:8", "scan_from_with.1:8", "scan_from_with.2:8", "Tuple_Len.0:6"]
    return Ob("roundtrip.%s.s%d" % (name, slen), "C15/string_roundtrip.c", defs=["SLEN=%d" % slen, "VCAP=36"] + list(extra), srcs_extra=["env_vcap.c", "env_printf.c"],
              filedefs={"String.c": ["-Drealloc=vcap_realloc", "-Dcalloc=vcap_calloc", "-Dfree=vcap_free"]},
              unwind=big, unwindset=us, checks=["bounds", "pointer"], tiers=tiers, object_bits=14, mem_gb=10,
              desc="String show/look round trip, content <= %d bytes (%s)" % (slen, name), **kw)
OBLIGATIONS = [R("plain", 1, ("probe",), timeout=900), R("plain", 2, ("probe",), timeout=1800)]
LEVEL_TEXT = "x"
LEVEL_NOTE = "x"

CLAIMED = False
