from vlib.core import Ob
ID = "C15"
LEVEL = "model_checking"
FUNCTIONS = ["String_Show", "String_Look", "show_to", "look_from", "print_to_with", "scan_from_with", "format_to", "format_from", "format_to_va", "format_from_va",
             "String_Format_To", "String_Format_From", "String_Concat", "String_Clear", "Int_Assign"]
ASSUMPTIONS = []
EXPLANATION = "show/look round trip of symbolic Strings through the real print/scan paths over a model of the C formatting calls they use"
def R(name, slen, tiers, extra=(), **kw):
    big = 3 * slen + 8
    us = ["Type_Scan.0:40", "Type_Scan.1:40", "strcmp.0:26", "strlen.0:%d" % big, "strcpy.0:%d" % big, "strcat.0:%d" % big, "strcat.1:%d" % big, "strchr.0:24",
          "vp_emit.0:%d" % big, "vsscanf.0:%d" % big, "vcap_new.0:40", "vcap_realloc.0:40", "vcap_check.0:40", "vcap_check.1:6", "vcap_find.0:6", "vcap_live.0:6",
          "String_Show.0:%d" % (slen + 2), "String_Look.0:%d" % (slen + 3), "memcpy.0:4", "memcpy.1:%d" % big, "print_to_with.0:8", "print_to_with.1:8", "print_to_with.2:8",
          "scan_from_with.0:8", "scan_from_with.1:8", "scan_from_with.2:8", "Tuple_Len.0:6"]
    return Ob("roundtrip.%s.s%d" % (name, slen), "C15/string_roundtrip.c", defs=["SLEN=%d" % slen, "VCAP=%d" % (4 * slen + 8), "VCAP_BLOCKS=4"] + list(extra), srcs_extra=["env_vcap2.c", "env_printf.c"],
              filedefs={"String.c": ["-Drealloc=vcap_realloc", "-Dcalloc=vcap_calloc", "-Dfree=vcap_free"]},
              unwind=big, unwindset=us, checks=["bounds", "pointer"], tiers=tiers, object_bits=14, mem_gb=kw.pop("mem_gb", 10),
              desc="String show/look round trip, content <= %d bytes (%s)" % (slen, name), **kw)
def N(kind, via, tiers, prefix=False, **kw):
    kn = ["int", "float"][kind]; vn = ["show_look", "print_scan_obj", "print_scan_spec", "print_scan_i"][via]
    big = 48
    us = ["Type_Scan.0:40", "Type_Scan.1:40", "strcmp.0:26", "strlen.0:%d" % big, "strcpy.0:%d" % big, "strcat.0:%d" % big, "strcat.1:%d" % big, "strchr.0:24",
          "vcap_new.0:42", "vcap_realloc.0:42", "vcap_realloc.1:42", "vcap_check.0:42", "vcap_check.1:6", "vcap_find.0:6", "vcap_live.0:6",
          "memcpy.0:4", "memcpy.1:%d" % big, "print_to_with.0:8", "print_to_with.1:8", "print_to_with.2:8",
          "scan_from_with.0:8", "scan_from_with.1:8", "scan_from_with.2:8", "Tuple_Len.0:6", "main.0:%d" % big]
    return Ob("roundtrip.%s.%s%s" % (kn, vn, ".prefix" if prefix else ""), "C15/num_roundtrip.c", defs=["KIND=%d" % kind, "VIA=%d" % via, "VCAP=40", "VCAP_BLOCKS=4"] + (["WITH_PREFIX"] if prefix else []),
              srcs_extra=["env_vcap2.c", "env_printf.c"], filedefs={"String.c": ["-Drealloc=vcap_realloc", "-Dcalloc=vcap_calloc", "-Dfree=vcap_free"]},
              unwind=big, unwindset=us, checks=["bounds", "pointer"], tiers=tiers, object_bits=14, mem_gb=10, timeout=900,
              desc="%s written and read back (%s), two values with a separator%s" % (kn, vn, ", after a prefix character" if prefix else ""), **kw)
QT = ("quick", "thorough")
OBLIGATIONS = [N(0, 0, QT), N(1, 0, QT), N(0, 1, QT), N(1, 1, QT), N(0, 2, QT, prefix=True), N(1, 2, QT, prefix=True), N(0, 3, QT),
R("plain", 1, QT, timeout=1500), R("prefix", 1, ("thorough",), extra=["WITH_PREFIX"], timeout=3000, mem_gb=28), R("two", 1, ("thorough",), extra=["TWO"], timeout=3000, mem_gb=28),
               R("plain", 2, ("probe",), timeout=3600, mem_gb=28)]
LEVEL_TEXT = ("Bounded model checking of the real writers and readers (String_Show/String_Look, Int_Show/Int_Look, Float_Show/Float_Look, show_to/look_from, print_to_with/scan_from_with, "
              "String_Format_To/String_Format_From) on a String sink: every String of <= 1 content byte over the full byte range (quotes, backslashes, control characters), every int64 and "
              "every finite double, alone and followed by a separator and a second value, from start positions 0, 1/2 and the position after the separator; value read back equal and "
              "reader position equal to writer position.")
LEVEL_NOTE = ("Trusted: cbmc; lib/env_printf.c as the contract of vsnprintf/vsprintf/vsscanf for the directives reached (literal text, %%, %c, %n, %li/%ld, %i/%d, %f, %lf) -- the decimal digits "
              "libc produces and parses are FFI and replaced by an abstract injective fixed-width text, so the numeric claim is 'Cello hands the right C value and width to the writer, the right "
              "pointer and width to the reader, and accounts positions exactly', not 'glibc round-trips decimals'; Float equality is exact under the model, i.e. at least as strong as 'within the "
              "printed precision'. lib/env_vcap2.c as malloc/realloc/free. Outside: File sinks (vfprintf/vfscanf on a FILE* are libc I/O; File_Format_To/From forward the same va_list and ignore pos), "
              "Strings longer than 1 content byte in the quick/thorough tiers (2 bytes runs out of memory at 28 GB), directives with flags/width/precision, sequences of more than two values.")
