from vlib.core import Ob
ID = "C04"
LEVEL = "model_checking"
FUNCTIONS = ["List_Push", "List_Pop", "List_Push_At", "List_Pop_At", "List_Get", "List_Set", "List_Rem", "List_Mem", "List_Concat", "List_Assign", "List_Resize", "List_Iter_Init", "List_Iter_Next", "List_Iter_Last", "List_Iter_Prev", "List_Mark", "List_Del", "List_At", "List_Link", "List_Unlink",
             "Tuple_Push", "Tuple_Pop", "Tuple_Push_At", "Tuple_Pop_At", "Tuple_Get", "Tuple_Set", "Tuple_Rem", "Tuple_Mem", "Tuple_Concat", "Tuple_Resize", "Tuple_Sort_By", "Tuple_Iter_Init", "Tuple_Iter_Next", "Tuple_Iter_Last", "Tuple_Iter_Prev", "Tuple_Len",
             "Array_New", "Array_Push", "Array_Pop", "Array_Push_At", "Array_Pop_At", "Array_Get", "Array_Set", "Array_Rem", "Array_Mem", "Array_Concat",
             "Array_Resize", "Array_Reserve_More", "Array_Reserve_Less", "Array_Sort_By", "Array_Sort_Part", "Array_Sort_Partition", "Array_Iter_Init", "Array_Iter_Next",
             "Array_Iter_Last", "Array_Iter_Prev", "Array_Assign", "Array_Clear", "Array_Del", "Array_Alloc", "Array_Item", "Array_Len"]
ASSUMPTIONS = []
EXPLANATION = "inductive step of each sequence operation from an arbitrary valid state against a reference sequence"
def A(name, op, l, tiers, **kw):
    lm = 2 * l + 2
    us = ["Type_Scan.0:24", "Type_Scan.1:24", "strcmp.0:24", "owns.0:26", "owns.1:%d" % (lm + 2), "owns.2:%d" % (lm + 2), "elem_live_count.0:26",
          "vcw_new.0:60", "vcw_realloc.0:60", "vcw_check.0:60", "vcw_check.1:6", "vcw_find.0:6", "vcw_live.0:6", 
          "memcpy.0:8", "memset.0:8", "verif_memmove_w.0:%d" % (5 * (l + 1) + 2), "verif_memmove_w.1:%d" % (5 * (l + 1) + 2), "snapshot.0:%d" % (5 * lm + 2), "verif_on_throw.0:%d" % (5 * lm + 2)]
    two = name in ("concat", "assign")
    vcw = 5 * (2 * l + 3) if two or name in ("push", "push_at", "resize", "init") else 5 * (l + 2)
    return Ob("array.%s.l%d" % (name, l), "C04/array_step.c", defs=["L=%d" % l, "OP=%s" % op, "VCW=%d" % vcw, "VCW_BLOCKS=%d" % (3 if two or name == "init" else 1)], replace=["Array.c"], srcs_extra=["env_vcapw.c"],
              unwind=lm + 2, unwindset=us, checks=["bounds", "pointer", "div0"], tiers=tiers, desc="Array %s step from an arbitrary valid state, length <= %d" % (name, l), **kw)
P = ("quick", "thorough")
OPS = [("init", "OP_INIT"), ("push", "OP_PUSH"), ("pop", "OP_POP"), ("push_at", "OP_PUSH_AT"), ("pop_at", "OP_POP_AT"), ("getset", "OP_GETSET"), ("rem", "OP_REM"),
       ("rem_absent", "OP_REM_ABSENT"), ("mem", "OP_MEM"), ("concat", "OP_CONCAT"), ("resize", "OP_RESIZE"), ("sort", "OP_SORT"), ("iter", "OP_ITER"),
       ("assign", "OP_ASSIGN"), ("del", "OP_DEL"), ("mark", "OP_MARK"), ("show", "OP_SHOW"), ("bad_index", "OP_BAD_INDEX"), ("pop_empty", "OP_POP_EMPTY")]
def AN(name, op, l, nlen, spare, tiers, **kw):
    o = A(name, op, l, tiers, **kw)
    o.name = "array.%s.n%d%s" % (name, nlen, "+%d" % spare if spare else "")
    o.defs += ["NLEN=%d" % nlen, "NSPARE=%d" % spare]
    o.unwindset = list(o.unwindset) + ["Array_Sort_Part:%d" % (nlen + 1), "Array_Sort_Partition.0:%d" % (nlen + 2)]
    o.desc = "Array %s step from an arbitrary valid state of length %d with %d spare slots" % (name, nlen, spare)
    return o
OBLIGATIONS = [A("init", "OP_INIT", 3, P, timeout=600), AN("pop_empty", "OP_POP_EMPTY", 3, 0, 0, P, timeout=600), AN("pop_empty", "OP_POP_EMPTY", 3, 0, 1, P, timeout=600)]
for n_, o_ in OPS:
    if n_ in ("init", "pop_empty"):
        continue
    for nlen in range(0, 4):
        if nlen == 0 and n_ in ("pop", "pop_at", "getset", "rem"):
            continue
        if n_ in ("push_at", "pop_at"):
            rng = range(-(nlen + 1), nlen + 1) if n_ == "push_at" else range(-nlen, nlen)
            for ix in rng:
                o = AN(n_, o_, 3, nlen, 1 if nlen == 2 else 0, P, timeout=600)
                o.name += ".i%d" % ix
                o.defs.append("IDXC=%d" % ix)
                OBLIGATIONS.append(o)
            continue
        if n_ in ("concat", "assign"):
            for ml in range(0, 4):
                o = AN(n_, o_, 3, nlen, 1 if nlen == 2 else 0, P, timeout=600)
                o.name += ".m%d" % ml
                o.defs.append("MLEN=%d" % ml)
                OBLIGATIONS.append(o)
            continue
        o = AN(n_, o_, 3, nlen, 1 if nlen == 2 else 0, P, timeout=600)
        if n_ == "show":
            o.replace_calls = ["print_to_with:v_print_rec"]; o.unwindset = list(o.unwindset) + ["v_print_rec.0:14"]
        if n_ == "sort" and nlen == 3:
            o.tiers = ("thorough",); o.mem_gb = 20; o.timeout = 3600
        OBLIGATIONS.append(o)
# states with more spare capacity than one slot: the shrink rule (more than n/2 spare after the removal) first
# separates "capacity := item count" from other candidates (e.g. halving) at 3 items left in 5 slots
for n_, o_, nlen, spare in [("pop", "OP_POP", 4, 1), ("pop", "OP_POP", 4, 2), ("pop", "OP_POP", 3, 2), ("rem", "OP_REM", 4, 1), ("rem", "OP_REM", 3, 2),
                            ("push", "OP_PUSH", 3, 2), ("push", "OP_PUSH", 4, 1), ("getset", "OP_GETSET", 4, 1), ("iter", "OP_ITER", 4, 2), ("resize", "OP_RESIZE", 4, 1)]:
    OBLIGATIONS.append(AN(n_, o_, 4, nlen, spare, ("thorough",) if n_ == "resize" else P, timeout=1800 if n_ == "resize" else 900))
for ix in range(-4, 4):
    o = AN("pop_at", "OP_POP_AT", 4, 4, 1, P, timeout=900); o.name += ".i%d" % ix; o.defs.append("IDXC=%d" % ix); OBLIGATIONS.append(o)
def TU(name, op, nlen, idx=None, **kw):
    lm = 8
    us = ["Type_Scan.0:40", "Type_Scan.1:40", "strcmp.0:26", "Tuple_Len.0:%d" % (lm + 2), "obj_index.0:6", "vcw_new.0:40", "vcw_realloc.0:40", "vcw_check.0:40", "vcw_check.1:5", "vcw_find.0:5", "vcw_live.0:5",
          "verif_memmove_w.0:%d" % (lm + 2), "verif_memmove_w.1:%d" % (lm + 2), "Tuple_Sort_Part:%d" % (nlen + 1), "Tuple_Sort_Partition.0:%d" % (nlen + 2), "Tuple_Rem.0:%d" % (nlen + 2)]
    defs = ["OP=%s" % op, "NLEN=%d" % nlen, "VCW=24", "VCW_BLOCKS=3"] + (["IDXC=%d" % idx] if idx is not None else [])
    return Ob("tuple.%s.n%d%s" % (name, nlen, "" if idx is None else ".i%d" % idx), "C04/tuple_step.c", defs=defs, replace=["Tuple.c"], srcs_extra=["env_vcapw.c"],
              unwind=lm + 2, unwindset=us, checks=["bounds", "pointer"], tiers=("quick", "thorough"), timeout=900, mem_gb=16 if name == "rem" else 8 if name in ("sort", "resize", "concat") else 4, backend="cadical" if name == "mem" else None, **kw)
TOPS = [("push", "OP_PUSH"), ("pop", "OP_POP"), ("push_at", "OP_PUSH_AT"), ("pop_at", "OP_POP_AT"), ("getset", "OP_GETSET"), ("rem", "OP_REM"), ("mem", "OP_MEM"), ("concat", "OP_CONCAT"),
        ("resize", "OP_RESIZE"), ("sort", "OP_SORT"), ("iter", "OP_ITER"), ("bad_index", "OP_BAD_INDEX"), ("mark", "OP_MARK")]
TUPLE = [TU("pop_empty", "OP_POP_EMPTY", 0)]
for nm, op in TOPS:
    for nlen in range(0, 4):
        if nlen == 0 and nm in ("pop", "push_at", "pop_at", "getset", "rem"):
            continue
        if nm in ("push_at", "pop_at"):
            for ix in range(-nlen, nlen):
                TUPLE.append(TU(nm, op, nlen, ix))
        else:
            TUPLE.append(TU(nm, op, nlen))
TUPLE += [TU("iter_dup", "OP_ITER", 2, known={"forward iteration: exactly len items": "tuple-cursor-by-identity", "backward iteration: the same items in reverse order": "tuple-cursor-by-identity"})]
TUPLE[-1].defs.append("DUP")
TCMP = [TU("cmphash", "OP_CMPHASH", n_, replace_calls=["cmp:v_cmp_items", "hash:v_hash_items"]) for n_ in range(0, 4) for m_ in range(0, 4)]
for o_, (n_, m_) in zip(TCMP, [(a_, b_) for a_ in range(0, 4) for b_ in range(0, 4)]):
    o_.name = "tuple.cmphash.n%dm%d" % (n_, m_); o_.defs.append("MLEN=%d" % m_); o_.unwindset = list(o_.unwindset) + ["Tuple_Cmp.0:6", "Tuple_Hash.0:6", "Tuple_Iter_Next.0:6"]
TUPLE += TCMP
TASG = [TU("assign", "OP_ASSIGN", n_) for n_ in range(0, 4) for m_ in range(0, 4)]
for o_, (n_, m_) in zip(TASG, [(a_, b_) for a_ in range(0, 4) for b_ in range(0, 4)]):
    o_.name = "tuple.assign.n%dm%d" % (n_, m_); o_.defs.append("MLEN=%d" % m_)
TUPLE += TASG
TUPLE += [TU("rem_calls", "OP_REM_CALLS", n_, replace_calls=["Tuple_Pop_At:verif_pop_at_stub"]) for n_ in range(0, 4)]
def LI(name, op, nlen, mlen=None, **kw):
    us = ["Type_Scan.0:40", "Type_Scan.1:40", "strcmp.0:26", "node_index.0:10", "pool_calloc.0:10", "pool_live_count.0:10", "owns.0:26", "owns.1:12", "owns.2:12", "elem_live_count.0:26",
          "agrees.0:10", "snapshot.0:10", "snapshot.1:10", "verif_on_throw.0:10", "verif_on_throw.1:10", "List_At.0:6", "List_At.1:6", "memcpy.0:8", "memcpy.1:40"]
    defs = ["OP=%s" % op, "NLEN=%d" % nlen] + (["MLEN=%d" % mlen] if mlen is not None else [])
    return Ob("list.%s.n%d%s" % (name, nlen, "" if mlen is None else ".m%d" % mlen), "C04/list_step.c", defs=defs, replace=["List.c"],
              unwind=10, unwindset=us, checks=["bounds", "pointer"], tiers=("quick", "thorough"), timeout=900, **kw)
LOPS = [("push", "OP_PUSH"), ("pop", "OP_POP"), ("push_at", "OP_PUSH_AT"), ("pop_at", "OP_POP_AT"), ("getset", "OP_GETSET"), ("rem", "OP_REM"), ("rem_absent", "OP_REM_ABSENT"), ("mem", "OP_MEM"),
        ("concat", "OP_CONCAT"), ("assign", "OP_ASSIGN"), ("resize", "OP_RESIZE"), ("iter", "OP_ITER"), ("mark", "OP_MARK"), ("del", "OP_DEL"), ("bad_index", "OP_BAD_INDEX")]
LIST = [LI("pop_empty", "OP_POP_EMPTY", 0)]
for nm, op in LOPS:
    for nlen in range(0, 4):
        if nlen == 0 and nm in ("pop", "pop_at", "getset", "rem"):
            continue
        if nm in ("concat", "assign"):
            for ml in range(0, 3):
                LIST.append(LI(nm, op, nlen, ml))
        else:
            LIST.append(LI(nm, op, nlen))
for o_ in TUPLE:
    if o_.name == "tuple.sort.n3":
        o_.tiers = ("thorough",); o_.mem_gb = 20; o_.timeout = 3600
OBLIGATIONS += TUPLE + LIST
# the quick tier has to finish well inside 15 minutes: length / index cases that repeat a neighbouring case's code paths run in the thorough tier only
import re as _re
_TONLY = [r"array\.resize\.n(0|1|3)$", r"array\.(push_at|pop_at)\.n(0|1|3)\.", r"array\.pop_at\.n4\+1\.", r"array\.(concat|assign)\.n(0|1|3)\.", r"tuple\.(assign|cmphash)\.n(0|1)m",
          r"tuple\.(push_at|pop_at)\.n1\.", r"tuple\.(resize|concat)\.n(0|1|3)$", r"list\.(concat|assign)\.n(0|1|3)\."]
for o_ in OBLIGATIONS:
    if "quick" in o_.tiers and any(_re.search(x_, o_.name) for x_ in _TONLY):
        o_.tiers = ("thorough",)
LEVEL_TEXT = ("Bounded model checking of the real Array.c, List.c and Tuple.c: every operation as an inductive step from an arbitrary valid state (symbolic element values, duplicates, spare capacity) "
              "against a reference sequence, one obligation per pre-state length 0..3 (and per index for the element-shifting operations, per operand length for concat/assign).")
LEVEL_NOTE = ("Trusted: cbmc; probe element callbacks (eq/cmp/assign/destruct/swap) with an ownership ledger; storage malloc/realloc/free replaced by the fixed-capacity model lib/env_vcapw.c. "
              "List nodes are separate cbmc objects from a pool (calloc/free of List.c); Tuple items are references to harness objects, Tuple cursors are the items themselves, so iteration obligations assume distinct references (known finding).")
