"""helpers to build a property's obligation list out of obligations defined for other properties"""
import copy, re, importlib

def pick(modname, pattern, tiers=None, exclude=None):
    m = importlib.import_module("props." + modname)
    out = []
    for o in m.OBLIGATIONS:
        if re.search(pattern, o.name) and not (exclude and re.search(exclude, o.name)):
            c = copy.copy(o)
            c.defs = list(o.defs); c.unwindset = list(o.unwindset); c.checks = list(o.checks)
            if tiers is not None:
                c.tiers = tiers
            out.append(c)
    return out
