from vlib.core import Ob
from props._compose import pick
ID = "C10"
LEVEL = "model_checking"
FUNCTIONS = ["hash", "hash_data", "Int_Hash", "Float_Hash", "String_Hash", "Type_Hash", "assign", "swap", "memswap", "Int_Assign", "Float_Assign", "String_Assign", "String_New", "eq", "cmp", "Table_Cmp", "Array_Cmp", "List_Cmp", "Array_Hash", "List_Hash"]
ASSUMPTIONS = []
EXPLANATION = "bounded symbolic execution of hash/eq/assign/swap on symbolic values; hash_data differential against a reference MurmurHash64A"
US = ["Type_Scan.0:24", "Type_Scan.1:24", "strcmp.0:24"]
Q = ("quick", "thorough")
QUICKSET = [(n, o) for n in (0, 1, 2, 3, 7, 8, 9, 15, 16, 17, 24) for o in (0, 1, 7)] + [(32, 3), (40, 0)]
ALLSET = sorted(set(QUICKSET + [(n, o) for n in range(0, 25) for o in (0, 1, 7)] + [(n, o) for n in range(25, 65, 3) for o in (0, 3, 5)]))
OBLIGATIONS = [
    Ob("value_hash.intfloat", "C10/value_hash.c", desc="Int/Float: eq=>hash equal, alloc-class independence, assign, swap; full width", unwindset=US, checks=["bounds", "pointer"], tiers=Q, timeout=600),
    Ob("string_hash.stack.len4.uf", "C10/string_hash.c", defs=["SLEN=4", "LIGHT", "UFHASH"], replace_calls=["hash_data:v_hash_data"], desc="String / Type Hash hand exactly the characters (terminator excluded) resp. the name to hash_data (uninterpreted here): same characters at another address hash the same", unwindset=US + ["strlen.0:8", "strcpy.0:8", "harness.0:8", "harness.1:8", "v_hash_data.0:18", "v_hash_data.1:18", "v_hash_data.2:18"], checks=["bounds", "pointer"], tiers=Q, timeout=900),
    Ob("string_hash.stack.len4", "C10/string_hash.c", defs=["SLEN=4", "LIGHT"], desc="String hash = hash_data over exactly len characters; same characters at another address are eq and hash the same; Type hash by name", unwindset=US + ["strlen.0:8", "strcpy.0:8", "harness.0:8", "harness.1:8"], checks=["bounds", "pointer"], tiers=("probe",), timeout=3600, backend="z3"),
    Ob("string_hash.len4", "C10/string_hash.c", defs=["SLEN=4", "UFHASH"], replace_calls=["hash_data:v_hash_data"], desc="String hash/copy/assign/swap, content <= 4 bytes (hash_data uninterpreted)", unwindset=US + ["strlen.0:8", "strcpy.0:8", "harness.0:8", "harness.1:8", "v_hash_data.0:18", "v_hash_data.1:18", "v_hash_data.2:18", "memcpy.0:8", "memcpy.1:12"], checks=["bounds", "pointer"], tiers=("probe",), timeout=900),
    Ob("string_hash.len8", "C10/string_hash.c", defs=["SLEN=8", "UFHASH"], replace_calls=["hash_data:v_hash_data"], desc="String hash/copy/assign/swap, content <= 8 bytes", unwindset=US + ["strlen.0:12", "strcpy.0:12", "harness.0:12", "harness.1:12"], unwind=12, checks=["bounds", "pointer"], tiers=("probe",), timeout=3600, backend="z3"),
] + [
    Ob("hash_data.len%d.off%d" % (n, o), "C10/hash_data.c", defs=["LEN=%d" % n, "OFF=%d" % o], desc="hash_data vs reference Murmur, %d bytes at alignment %d" % (n, o),
       unwind=max(n, 9) + 3, checks=["bounds", "pointer"], tiers=(Q if (n, o) in QUICKSET else ("thorough",)), timeout=1800, link=["Hash.c"], backend="z3")
    for (n, o) in ALLSET
]
for o_ in OBLIGATIONS:
    if o_.name.startswith("hash_data."):
        o_.retry_s = 25          # these queries answer in 1-5 s or hang (solver heuristics): retry with other seeds early
import props.C02 as _c02
OBLIGATIONS += [Ob("table_cmp.ns5", "C10/table_cmp.c", defs=["NS=5", "OP=0", "ELEM_D=6"], replace=["Table.c"], unwind=8, unwindset=_c02.US(5, 5) + ["v2_len.0:8", "key_id.0:8", "v2_from.0:8", "v2_iter_next.0:8", "v2_table_get.0:8", "Table_Cmp.0:8", "Table_Cmp.1:8"],
                   replace_calls=["len:v2_len", "mem:v2_mem", "get:v2_get", "iter_init:v2_iter_init", "iter_next:v2_iter_next", "neq:v2_neq", "cmp:v2_cmp", "Table_Get:v2_table_get"],
                   checks=["bounds", "pointer", "div0"], tiers=Q, timeout=1800, mem_gb=10, desc="Table cmp/eq between an arbitrary valid 5-slot Table and an abstract other Table (free entries, free iteration order)")]
PUS = US + ["memswap.0:140", "memcpy.0:20", "memcpy.1:140", "memcmp.0:140", "hash_data.0:20", "harness.0:140", "harness.1:140", "harness.2:140", "harness.3:140"]
OBLIGATIONS += [Ob("struct_swap.sz%d" % z, "C10/pointer_swap.c", defs=["CASE=1", "SZ=%d" % z], unwind=140, unwindset=PUS, checks=["bounds", "pointer"], tiers=Q, timeout=1800, backend="z3" , desc="default swap/assign/eq/hash on a plain %d-byte struct" % z) for z in (24, 72, 136)]
OBLIGATIONS += [Ob("ref_assign.sub%d" % u, "C10/pointer_swap.c", defs=["CASE=2", "SUB=%d" % u], unwind=20, unwindset=PUS, checks=["bounds", "pointer"], tiers=Q, timeout=900, desc="Ref assign/copy/eq/hash, one level of dereference (part %d)" % u) for u in range(3)]
OBLIGATIONS += [Ob("box_owns.kind%d" % u, "C10/pointer_swap.c", defs=["CASE=3", "SUB=%d" % u], unwind=20, unwindset=PUS, checks=["bounds", "pointer"], tiers=Q, timeout=900, replace_calls=["del:v_del"], desc="Box finalisation hands the pointee to del exactly once (%s Box)" % ["stack", "heap", "embedded"][u]) for u in range(3)]
OBLIGATIONS += pick("C04", r"tuple\.cmphash\.n[23]m[23]") + pick("C03", r"tree\.cmphash\.q")
OBLIGATIONS += pick("C09", r"container_cmp\.(array|list)\.n[23]m[23]")
LEVEL_TEXT = ("Bounded model checking: Int/Float hash and eq at full 64-bit / IEEE width, String content up to the stated length, hash_data differentially "
              "against an independent MurmurHash64A for the listed (length, alignment) pairs; SMT back end (z3) for the multiply kernels.")
LEVEL_NOTE = "Trusted: cbmc + z3 word-level semantics; reference MurmurHash64A written from the published algorithm; Array/List hashes are the XOR fold of uninterpreted element hashes (container_cmp obligations); Table/Tree hashes and Table equality are not covered (Table_Cmp compares in slot order: known finding)."
