from vlib.core import Ob
ID = "C10"
LEVEL = "model_checking"
FUNCTIONS = ["hash", "hash_data", "Int_Hash", "Float_Hash", "String_Hash", "Type_Hash", "assign", "swap", "memswap", "Int_Assign", "Float_Assign", "String_Assign", "String_New", "eq", "cmp"]
ASSUMPTIONS = []
EXPLANATION = "bounded symbolic execution of hash/eq/assign/swap on symbolic values; hash_data differential against a reference MurmurHash64A"
US = ["Type_Scan.0:24", "Type_Scan.1:24", "strcmp.0:24"]
Q = ("quick", "thorough")
OBLIGATIONS = [
    Ob("value_hash.intfloat", "C10/value_hash.c", desc="Int/Float: eq=>hash equal, alloc-class independence, assign, swap; full width", unwindset=US, checks=["bounds", "pointer"], tiers=("probe",), timeout=300),
    Ob("string_hash.len4", "C10/string_hash.c", defs=["SLEN=4"], desc="String hash/copy/assign/swap, content <= 4 bytes", unwindset=US + ["strlen.0:8", "strcpy.0:8", "harness.0:8", "harness.1:8"], checks=["bounds", "pointer"], tiers=("probe",), timeout=300, backend="z3"),
] + [
    Ob("hash_data.len%d.off%d" % (n, o), "C10/hash_data.c", defs=["LEN=%d" % n, "OFF=%d" % o], desc="hash_data vs reference Murmur, %d bytes at alignment %d" % (n, o),
       unwind=max(n, 9) + 2, checks=["bounds", "pointer"], tiers=("probe",), timeout=300, link=["Hash.c"], backend="z3")
    for (n, o) in [(0, 0), (3, 1), (8, 0), (9, 3), (16, 5)]
]
LEVEL_TEXT = "x"
LEVEL_NOTE = "x"
