from vlib.core import Ob
from props._compose import pick
ID = "C10"
LEVEL = "model_checking"
FUNCTIONS = ["hash", "hash_data", "Int_Hash", "Float_Hash", "String_Hash", "Type_Hash", "assign", "swap", "memswap", "Int_Assign", "Float_Assign", "String_Assign", "String_New", "eq", "cmp"]
ASSUMPTIONS = []
EXPLANATION = "bounded symbolic execution of hash/eq/assign/swap on symbolic values; hash_data differential against a reference MurmurHash64A"
US = ["Type_Scan.0:24", "Type_Scan.1:24", "strcmp.0:24"]
Q = ("quick", "thorough")
QUICKSET = [(n, o) for n in range(0, 25) for o in (0, 1, 7)] + [(32, 3), (40, 0)]
ALLSET = QUICKSET + [(n, o) for n in range(25, 65, 3) for o in (0, 3, 5)]
OBLIGATIONS = [
    Ob("value_hash.intfloat", "C10/value_hash.c", desc="Int/Float: eq=>hash equal, alloc-class independence, assign, swap; full width", unwindset=US, checks=["bounds", "pointer"], tiers=Q, timeout=600),
    Ob("string_hash.stack.len4", "C10/string_hash.c", defs=["SLEN=4", "LIGHT"], desc="String hash = hash_data over exactly len characters; same characters at another address are eq and hash the same; Type hash by name", unwindset=US + ["strlen.0:8", "strcpy.0:8", "harness.0:8", "harness.1:8"], checks=["bounds", "pointer"], tiers=Q, timeout=900, backend="z3"),
    Ob("string_hash.len4", "C10/string_hash.c", defs=["SLEN=4"], desc="String hash/copy/assign/swap, content <= 4 bytes", unwindset=US + ["strlen.0:8", "strcpy.0:8", "harness.0:8", "harness.1:8"], checks=["bounds", "pointer"], tiers=("probe",), timeout=900, backend="z3"),
    Ob("string_hash.len8", "C10/string_hash.c", defs=["SLEN=8"], desc="String hash/copy/assign/swap, content <= 8 bytes", unwindset=US + ["strlen.0:12", "strcpy.0:12", "harness.0:12", "harness.1:12"], unwind=12, checks=["bounds", "pointer"], tiers=("probe",), timeout=3600, backend="z3"),
] + [
    Ob("hash_data.len%d.off%d" % (n, o), "C10/hash_data.c", defs=["LEN=%d" % n, "OFF=%d" % o], desc="hash_data vs reference Murmur, %d bytes at alignment %d" % (n, o),
       unwind=max(n, 9) + 3, checks=["bounds", "pointer"], tiers=(Q if (n, o) in QUICKSET else ("thorough",)), timeout=1800, link=["Hash.c"], backend="z3")
    for (n, o) in ALLSET
]
OBLIGATIONS += pick("C09", r"container_cmp\.(array|list)\.n[23]m[23]")
LEVEL_TEXT = ("Bounded model checking: Int/Float hash and eq at full 64-bit / IEEE width, String content up to the stated length, hash_data differentially "
              "against an independent MurmurHash64A for the listed (length, alignment) pairs; SMT back end (z3) for the multiply kernels.")
LEVEL_NOTE = "Trusted: cbmc + z3 word-level semantics; reference MurmurHash64A written from the published algorithm; Array/List hashes are the XOR fold of uninterpreted element hashes (container_cmp obligations); Table/Tree hashes and Table equality are not covered (Table_Cmp compares in slot order: known finding)."
