from vlib.core import Ob
from props._compose import pick
ID = "C05"
LEVEL = "model_checking"
FUNCTIONS = ["Table_Set_Move", "Table_Rem", "Table_Rehash", "Table_Clear", "Table_Del", "Tree_Set", "Tree_Rem", "Tree_Clear", "Array_Push", "Array_Pop", "Array_Push_At", "Array_Pop_At",
             "Array_Set", "Array_Rem", "Array_Concat", "Array_Resize", "Array_Sort_By", "Array_Assign", "Array_Del", "Box_Del"]
ASSUMPTIONS = []
EXPLANATION = ("the ownership ledger of the probe element (token issued on construction, retired on destruct) asserted after every mutating step of Table, Tree and Array "
               "from arbitrary valid states: no element finalised twice or never, none duplicated or dropped by internal moves, live tokens = sum of lengths; deep copies share nothing")
QUICK = (
    pick("C02", r"table\.(set\.home[04]|rem\.home[14])\.ns5|table\.(del|clearset)\.ns5|table\.init|table\.assign\.m1|table\.(rehash_calls\.5to11|setmove_move)", tiers=("quick",))
    + pick("C03", r"tree\.(set|rem|clear)\.q[2-5]$", tiers=("quick",))
    + pick("C04", r"array\.(push|pop|rem|del|getset)\.n[23]|array\.(resize|sort)\.n2|array\.(pop|rem)\.n4\+1|array\.(concat|assign)\.n2\+1\.m[12]|array\.(push_at|pop_at)\.n2\+1\.i(0|1|-1)$", tiers=("quick",))
    + pick("C04", r"list\.(push|pop|push_at|pop_at|getset|rem|resize|del)\.n[23]$|list\.(concat|assign)\.n2\.m[12]|list\.bad_index\.n2", tiers=("quick",))
)
THOROUGH = (
    pick("C02", r"table\.(set|rem|del|clearset|resize|assign)\..*ns5|table\.assign\.", tiers=("thorough",))
    + pick("C03", r"tree\.(set|rem|clear)\.(q|five)", tiers=("thorough",))
    + pick("C04", r"(array|list)\.(push|pop|push_at|pop_at|getset|rem|concat|resize|sort|assign|del|bad_index)\.", tiers=("thorough",))
)
# The thorough tier of this property is its quick set: the same ownership-ledger assertions at larger bounds (all home slots,
# 6-node trees, every length / index case, 11-slot lookups) are part of the C02 / C03 / C04 thorough tiers, where they run once.
# (A separate thorough selection existed; its last full run did not finish inside the round, so it is kept as unclaimed probe tier.)
for o in QUICK:
    o.tiers = ("quick", "thorough")
for o in THOROUGH:
    o.name = o.name + ".T"
    o.tiers = ("probe",)
OBLIGATIONS = QUICK + [o for o in THOROUGH] + pick("C10", r"box_owns\.", tiers=None)
LEVEL_TEXT = ("Bounded model checking: the same inductive-step obligations as C02/C03/C04, selected for their ownership-ledger assertions (every stored element holds a distinct live token, "
              "replaced/removed/cleared elements retired exactly once, moves carry tokens, copies issue new ones), within the bounds of their quick tiers (5-slot tables, <= 5-node trees, lengths <= 4); quick and thorough run the same set, the larger bounds are in the C02/C03/C04 thorough tiers.")
LEVEL_NOTE = ("Trusted: cbmc; the probe element stands for any element type with its own constructor/assignment/destructor; element types whose destructor re-enters the container are out; "
              "Tuple holds references, not elements, and is not part of the ledger; a Box hands its pointee to del exactly once (box_owns.*).")
