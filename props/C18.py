from vlib.core import Ob
from props._compose import pick
ID = "C18"
LEVEL = "model_checking"
FUNCTIONS = ["(the units of C02, C03, C04, C09, C10, C11, C16 recompiled per configuration)"]
ASSUMPTIONS = []
EXPLANATION = ("equivalence through shared reference models: every in-contract obligation whose oracle fully determines the observable result is re-decided with the library and the unit compiled under "
               "CELLO_NDEBUG, CELLO_CACHE=0, CELLO_NGC and their combinations; configurations that all equal the same deterministic model on all inputs within the bound equal each other there")
IN_CONTRACT = [
    ("C09", r"int_cmp\.full64|float_cmp\.full|string_cmp\.len4|struct_type_cmp"),
    ("C10", r"value_hash\.intfloat"),
    ("C11", r"range\.iter\.b6"),
    ("C02", r"table\.(set\.home0|rem\.home4|get\.home0|iter|del)\.ns5"),
    ("C03", r"tree\.(set\.q3|rem\.q5|iter\.q5|get\.q4)$"),
    ("C04", r"array\.(push\.n2|pop\.n3|sort\.n2\+1|getset\.n2|iter\.n3|resize\.n3|push_at\.n2\+1\.i1|pop_at\.n3\.i-1|concat\.n1\.m2|assign\.n2\+1\.m1)"),
    ("C16", r"string\.(concat|rem|resize|mem)\.s3a2"),
    ("C04", r"tuple\.(getset\.n2|iter\.n3|push_at\.n2\.i-1|pop_at\.n2\.i-2|assign\.n2m1|cmphash\.n2m2)$|list\.(getset|iter|push|pop)\.n2$"),
]
# obligations that are configuration-specific by construction (the layout / collector they exercise only exists there)
def native_cfg():
    out = pick("C08", r"runtime_type\.(nocache|ndebug)", tiers=None) + pick("C17", r"alloc_layer\.case[12]\.(ndebug|ngc)", tiers=None) + pick("C20", r"file\.lifecycle\.(3|4|013)\.ndebug", tiers=None)
    return out
def family(cfg, tiers, subset=None):
    out = []
    for mod, pat in IN_CONTRACT:
        if subset and mod not in subset:
            continue
        for o in pick(mod, pat, tiers=tiers):
            if "remabsent" in o.name or "absent" in o.name or "bad_index" in o.name:
                continue
            o.name = "%s@%s" % (o.name, cfg)
            o.config = cfg
            o.desc = "[%s] %s" % (cfg, o.desc)
            out.append(o)
    return out
Q = ("quick", "thorough")
T = ("thorough",)
OBLIGATIONS = (
    family("ndebug", Q) + family("nocache", Q, subset=("C09", "C10", "C11", "C16")) + family("ngc", Q, subset=("C09", "C16"))
    + family("nocache", T, subset=("C02", "C03", "C04")) + family("ngc", T, subset=("C10", "C11", "C02", "C03", "C04"))
    + family("ndebug_nocache", T) + family("ndebug_ngc", T) + native_cfg()
)
LEVEL_TEXT = ("Bounded model checking, equivalence by transitivity through reference models: the in-contract obligations of C02/C03/C04/C09/C10/C11/C16 are re-decided with library and unit compiled under "
              "CELLO_NDEBUG (smaller headers, checks compiled out), CELLO_CACHE=0 (method cache off), CELLO_NGC and combinations. Optimisation levels are NOT covered: cbmc interprets C semantics, not generated "
              "code (it contributes absence of the undefined behaviour it checks for on these paths).")
LEVEL_NOTE = "Trusted: cbmc; the reference models of the underlying properties; -O levels and compiler behaviour are outside (would need translation validation of compiler IR)."
