from vlib.core import Ob
ID = "C13"
LEVEL = "other"
FUNCTIONS = ["Mutex_New", "Mutex_Lock", "Mutex_Trylock", "Mutex_Unlock", "lock", "unlock", "trylock", "start_in", "stop_in", "Thread_New", "Thread_Call", "Thread_Join", "Thread_Current",
             "Thread_Get", "Thread_Set", "Thread_Mem", "Thread_Rem", "current", "call_with", "join"]
ASSUMPTIONS = []
EXPLANATION = ("Sequential, solver-based check of the thread/mutex WRAPPERS only: pthread calls are contract stubs with symbolic return codes; for all documented codes each wrapper forwards exactly once to "
               "its own pthread object, reports acquisition iff granted, maps failures to the documented exceptions, and current(Thread)/thread-local access follow the calling thread's record. "
               "Schedules/interleavings are NOT explored (cbmc 6.11 aborts multi-threaded symex of this code: 'pointer handling for concurrency is unsound'); mutual exclusion and join visibility "
               "then rest on POSIX.")
US = ["Type_Scan.0:40", "Type_Scan.1:40", "strcmp.0:26", "strlen.0:8", "strcpy.0:8", "Tuple_Len.0:8", "memcpy.0:14", "memcpy.1:30", "memset.0:14", "memset.1:30", "Table_Ideal_Size.0:26",
      "Table_Set_Move.0:8", "Table_Mem.0:8", "Table_Get.0:8", "Table_Rem.0:8", "Table_Rem.1:8", "Table_Rehash.0:8", "hash_data.0:4"]
OBLIGATIONS = [Ob("wrappers.case%d" % c, "C13/thread_wrappers.c", defs=["CASE=%d" % c], config="ngc", srcs_extra=["env_pthread.c"], unwind=12, unwindset=US, checks=["bounds", "pointer", "div0"],
                  tiers=("quick", "thorough"), object_bits=14, timeout=1800, mem_gb=8, fs_size=2048, desc=d)
               for c, d in [(1, "Mutex lock vs pthread codes"), (2, "Mutex trylock vs pthread codes"), (3, "unlock and with block"), (4, "Thread call/join vs pthread codes"), (5, "current(Thread) and thread-local routing")]]
OBLIGATIONS[4].tiers = ("probe",)   # routing through the real thread-local Table with String keys did not finish (dispatch on embedded headers at symbolic slots); see DESIGN.md
OBLIGATIONS += [Ob("tls_isolation.%s.%s" % (["main", "worker"][me_], ["mem", "get", "set", "rem"][op_]), "C13/thread_tls.c", defs=["ME=%d" % me_, "OPK=%d" % op_], replace=["Thread.c"], config="ngc", srcs_extra=["env_pthread.c"], unwind=12, unwindset=US, checks=["bounds", "pointer"], tiers=("quick", "thorough"), object_bits=14, timeout=900,
                   desc="thread-local %s by the %s thread on two thread records with abstract storage tables: only the caller's storage is touched" % (["mem", "get", "set", "rem"][op_], ["main", "worker"][me_])) for me_ in (0, 1) for op_ in range(4)]
LEVEL_TEXT = ("Other (reduced scope, stated): bounded symbolic execution of the real Thread.c/Mutex wrappers, sequentially, against pthread contract stubs with symbolic return codes. "
              "The schedule quantifier of the property is not explored.")
LEVEL_NOTE = "Trusted: cbmc; POSIX semantics of pthread_mutex_* / pthread_create / pthread_join / thread-specific data (the stubs only constrain return codes); no interleavings, no memory-model effects."
