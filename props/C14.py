from vlib.core import Ob
ID = "C14"
LEVEL = "model_checking"
FUNCTIONS = ["print_to_with", "c_int", "c_float", "c_str", "len", "get", "Tuple_Len", "Tuple_Get"]
ASSUMPTIONS = []
EXPLANATION = "symbolic format strings of the property's grammar through the real print_to_with scanner against an independent tokenizer"
def S(fl, tiers, **kw):
    us = ["Type_Scan.0:40", "Type_Scan.1:40", "strcmp.0:26", "strlen.0:%d" % (fl + 2), "strchr.0:22", "is_conv.0:22", "is_mid.0:26", "which_arg.0:5",
          "Tuple_Len.0:6", "memcpy.0:4", "memcpy.1:%d" % (fl + 3)]
    return Ob("print.scanner.fl%d" % fl, "C14/print_scanner.c", defs=["FL=%d" % fl], replace=["Show.c"], unwind=fl + 7, unwindset=us, checks=["bounds", "pointer"],
              tiers=tiers, object_bits=14, replace_calls=["format_to:verif_format_to", "show_to:verif_show_to"], desc="print_to_with on every well-formed format string of <= %d bytes" % fl, **kw)
OBLIGATIONS = [S(3, ("quick", "thorough"), timeout=1800), S(5, ("thorough",), timeout=3600, mem_gb=12), S(6, ("thorough",), timeout=7200, mem_gb=16)]
from props._compose import pick as _pick
OBLIGATIONS = list(OBLIGATIONS) + _pick("C02", r"table\.show\.") + _pick("C04", r"array\.show\.")
LEVEL_TEXT = ("Bounded model checking of the real print_to_with scanner on every well-formed format string of <= 3 (quick) / <= 6 (thorough) bytes with symbolic bytes, "
              "arguments and start position, against an independent tokenizer; memory safety of the fragment buffer included.")
LEVEL_NOTE = ("Trusted: cbmc; the C formatting layer (vsnprintf/vfprintf) is a recorder returning arbitrary lengths -- the characters libc produces are outside the check; "
              "argument access (len/get/c_int/c_float/c_str) is environment here and checked in C08/C09/C19; String and File sinks share this code path (format_to), "
              "their Format instances are exercised in C15/C16/C20.")
