from vlib.core import Ob
ID = "C16"
LEVEL = "model_checking"
FUNCTIONS = ["String_New", "String_Del", "String_Assign", "String_Concat", "String_Resize", "String_Mem", "String_Rem", "String_Len", "String_Cmp", "String_Hash", "String_C_Str", "c_str", "assign", "concat", "append", "resize", "mem", "rem", "len"]
ASSUMPTIONS = []
EXPLANATION = "bounded symbolic execution of the String operations against a reference buffer"
def S(name, op, slen, alen, tiers, **kw):
    big = slen + 2 * alen + 6
    us = ["Type_Scan.0:24", "Type_Scan.1:24", "strcmp.0:24", "strlen.0:%d" % big, "strcpy.0:%d" % big, "strcat.0:%d" % big, "strcat.1:%d" % big,
          "strstr.0:%d" % big, "strstr.1:%d" % big]
    return Ob("string.%s.s%da%d" % (name, slen, alen), "C16/string_ops.c", defs=["SLEN=%d" % slen, "ALEN=%d" % alen, "OP=%s" % op],
              unwind=big, unwindset=us + ["vcap_new.0:26", "vcap_realloc.0:26", "vcap_check.0:26", "vcap_check.1:14", "vcap_find.0:14", "vcap_live.0:14"], checks=["bounds", "pointer"], tiers=tiers,
              filedefs={"String.c": ["-Drealloc=vcap_realloc", "-Dcalloc=vcap_calloc", "-Dfree=vcap_free"]}, srcs_extra=["env_vcap.c"], desc="String %s, initial <= %d chars, operands <= %d chars" % (name, slen, alen), **kw)
OBLIGATIONS = [S(n, o, 3, 2, (("probe",) if n in ("assign", "seq") else ("quick", "thorough")), timeout=900, backend=("z3" if n in ("assign", "seq") else None)) for n, o in [("assign", "OP_ASSIGN"), ("concat", "OP_CONCAT"), ("resize", "OP_RESIZE"), ("mem", "OP_MEM"), ("rem", "OP_REM"), ("remabsent", "OP_REM_ABSENT"), ("seq", "OP_SEQ")]]
OBLIGATIONS += [S(n, o, 5, 3, (("quick", "thorough") if n in ("mem", "rem", "remabsent") else ("probe",) if n in ("assign", "seq") else ("thorough",)), timeout=3600, mem_gb=12, backend=("z3" if n in ("assign", "seq") else None)) for n, o in [("assign", "OP_ASSIGN"), ("concat", "OP_CONCAT"), ("resize", "OP_RESIZE"), ("mem", "OP_MEM"), ("rem", "OP_REM"), ("remabsent", "OP_REM_ABSENT"), ("seq", "OP_SEQ")]]
OBLIGATIONS += [S("alias", "OP_ALIAS", 3, 2, ("quick", "thorough"), timeout=900), S("alias", "OP_ALIAS", 5, 3, ("thorough",), timeout=3600, mem_gb=12)]
LEVEL_TEXT = ("Bounded model checking of the real String.c through the full dispatch: symbolic contents over the full byte range (initial <= 3 / 5 chars, operands <= 2 / 3 chars), "
              "every operation against a reference buffer, terminator and buffer-overflow oracle via the fixed-capacity allocation model.")
LEVEL_NOTE = "Trusted: cbmc; ISO-C models of strlen/strcpy/strcat/strstr/strcmp (lib/vlibc.c); realloc/calloc/free of String.c replaced by lib/env_vcap.c (requested sizes as ghost state, slack canary); formatted writes are C14."
