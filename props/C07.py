from vlib.core import Ob
from gen.excshapes import gen_programs
ID = "C07"
LEVEL = "model_checking"
FUNCTIONS = ["exception_try", "exception_throw", "exception_catch", "exception_try_end", "exception_try_fail", "Exception_Buffer", "Exception_Len", "Exception_Error"]
ASSUMPTIONS = []
EXPLANATION = "every try/catch/throw program tree up to the bound executed on the real Exception.c with symbolic exception kinds, filters and fire flags, against a reference interpreter"
def E(maxsize, depth, chunk, nchunk, tiers, **kw):
    return Ob("exc.s%d.chunk%02d" % (maxsize, chunk), "C07/exc_programs.c", replace=["Exception.c"], throw="none", link=["Alloc.c"], native_link="all",
              unwind=maxsize + 2, unwindset=["harness.0:700", "harness.1:700", "harness.2:700", "harness.3:700", "verif_len.0:5", "exception_catch.0:5", "run_impl.0:%d" % (maxsize + 2), "run_spec.0:%d" % (maxsize + 2)],
              gen=gen_programs(maxsize, depth, chunk, nchunk), tiers=tiers, object_bits=14,
              desc="programs with <= %d nodes, nesting <= %d, chunk %d of %d" % (maxsize, depth, chunk, nchunk), **kw)
OBLIGATIONS = [E(4, 3, c, 8, ("quick",), timeout=1800) for c in range(8)] + [E(5, 3, c, 48, ("thorough",), timeout=7200, mem_gb=12) for c in range(48)]
LEVEL_TEXT = ("Bounded model checking: the real Exception.c executed on every try/catch/throw program tree with <= 4 (quick) / <= 5 (thorough) nodes and nesting <= 3 "
              "(567 / 5447 programs, enumerated structurally), exception kinds, catch filters and whether each throw fires symbolic, compared with a reference interpreter.")
LEVEL_NOTE = ("Trusted: cbmc; setjmp/longjmp modelled (longjmp records its target, the interpreter transfers control); the interpreter mirrors the try/catch/throw macro bodies "
              "(generator fails closed if Cello.h's macros change); message formatting and the filter Tuple are environment; signals and EXCEPTION_MAX_DEPTH overflow are out.")
