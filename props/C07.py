from vlib.core import Ob
from gen.excshapes import gen_programs
ID = "C07"
LEVEL = "model_checking"
FUNCTIONS = ["exception_try", "exception_throw", "exception_catch", "exception_try_end", "exception_try_fail", "Exception_Buffer", "Exception_Len", "Exception_Error"]
ASSUMPTIONS = []
EXPLANATION = "every try/catch/throw program tree up to the bound executed on the real Exception.c with symbolic exception kinds, filters and fire flags, against a reference interpreter"
def E(maxsize, depth, chunk, nchunk, tiers, **kw):
    return Ob("exc.s%d.chunk%d" % (maxsize, chunk), "C07/exc_programs.c", replace=["Exception.c"], throw="none", link=["Alloc.c"], native_link="all",
              unwind=maxsize + 2, unwindset=["harness.0:700", "harness.1:700", "harness.2:700", "harness.3:700", "verif_len.0:5", "exception_catch.0:5", "run_impl.0:%d" % (maxsize + 2), "run_spec.0:%d" % (maxsize + 2)],
              gen=gen_programs(maxsize, depth, chunk, nchunk), tiers=tiers, object_bits=14,
              desc="programs with <= %d nodes, nesting <= %d, chunk %d of %d" % (maxsize, depth, chunk, nchunk), **kw)
OBLIGATIONS = [E(4, 3, c, 8, ("probe",), timeout=900) for c in range(8)]
LEVEL_TEXT = "x"
LEVEL_NOTE = "x"
