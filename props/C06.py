from vlib.core import Ob
from props._compose import pick
ID = "C06"
LEVEL = "model_checking"
FUNCTIONS = ["GC_Sweep", "GC_Rem", "GC_Rem_Ptr", "GC_Set", "del_raw", "String_Del", "Array_Del", "Table_Del", "Tree_Clear"]
ASSUMPTIONS = []
EXPLANATION = ("finalisation ledger (destruct/dealloc counted per managed object) asserted over the collector's sweep for an ARBITRARY marking, explicit del (GC_Rem), and the raw-object paths "
               "(del_raw of String / containers): every unmarked non-root registered object is finalised exactly once, then released exactly once; marked and root objects are untouched")
OBLIGATIONS = (
    pick("C17", r"gc\.(sweep\.noown|rem_pending|rem\.home|rem\.stopped|set\.home0)|alloc_layer", tiers=None)
    + pick("C16", r"string\.(concat|rem)\.s3a2", tiers=("quick", "thorough"))
    + pick("C02", r"table\.del\.ns5", tiers=("quick", "thorough"))
    + pick("C04", r"array\.del\.n[23]", tiers=("quick", "thorough"))
    + pick("C03", r"tree\.clear\.q[35]$", tiers=("quick", "thorough"))
    + pick("C10", r"box_owns\.", tiers=None)
)
LEVEL_TEXT = ("Bounded model checking of the collector's sweep and explicit deletion from an arbitrary valid registry (5 slots, 3-4 managed cells) with an arbitrary marking: exactly-once finalisation "
              "and release, order (finalise before release), survivors untouched; raw objects (String, Table, Array, Tree) release their storage exactly once on del_raw.")
LEVEL_NOTE = ("Trusted: cbmc; libc heap is a ledger; ownership edges (Box) inside a sweep are covered by the repaired GC_Rem_Ptr only through the native demonstration in findings/ (the symbolic ownership sweep "
              "exhausted memory); 'del while the collector is stopped' is a recorded known finding; thread-exit teardown order across atexit handlers is out.")
