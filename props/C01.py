from vlib.core import Ob
from props._compose import pick
ID = "C01"
LEVEL = "model_checking"
FUNCTIONS = ["GC_Mark", "GC_Mark_And_Recurse", "GC_Rehash", "Tuple_Mark", "GC_Mark_Item", "GC_Recurse", "GC_Mark_Stack", "GC_Sweep", "GC_Set"]
ASSUMPTIONS = []
EXPLANATION = ("the mark phase decomposed into three contracts, each decided from an arbitrary valid registry and heap graph with the callee replaced by a recorder: GC_Mark marks every root and hands every "
               "stack word (either stack direction) to GC_Mark_Item; GC_Mark_Item marks a registered unmarked object and enters it exactly once and ignores everything else; GC_Recurse hands every word of a "
               "plain object to GC_Mark_Item. By induction on path length: everything reachable from a root or stack word is marked and the recursion ends; the sweep (arbitrary marking) frees only unmarked non-roots")
OBLIGATIONS = (pick("C17", r"gc\.(mark_item|recurse|mark_and_recurse|mark_top|rehash|sweep\.noown|set\.home)|alloc_layer", tiers=None)
               + pick("C02", r"table\.mark\.", tiers=None) + pick("C04", r"(array|list|tuple)\.mark\.", tiers=None) + pick("C03", r"tree\.mark\.(q|t)", tiers=None))
LEVEL_TEXT = ("Bounded model checking, compositional: GC_Mark / GC_Mark_Item / GC_Recurse contracts from arbitrary registries and heap graphs (5 slots, <= 4 cells, 2 stack words, cycles and self-references "
              "included because edges are arbitrary), plus the sweep for arbitrary markings; the induction that glues the contracts into 'reachable => never reclaimed' is a paper argument stated in DESIGN.md.")
LEVEL_NOTE = ("Trusted: cbmc; the gluing induction; the machine stack and register flush (setjmp) are replaced by a harness array through the CELLO_VERIF hook; the Mark instances of Array, List, Table and Tree hand every element/key/value to the collector exactly once (Tuple, Thread not covered); "
              "thread-local roots are not in these obligations (thread-local marking was repaired, see known_findings.txt; its demonstration is native); chains of 10^2-10^6 links are out.")
