from vlib.core import Ob
from props._compose import pick
ID = "C19"
LEVEL = "model_checking"
FUNCTIONS = ["type_of", "header_init", "alloc", "alloc_raw", "alloc_root", "new_with", "new_raw_with", "new_root_with", "copy", "size", "Type_New", "Type_Alloc",
             "Array_New", "Array_Get", "Array_Iter_Init", "Array_Push", "List_New", "List_Get", "Table_New", "Table_Get", "Table_Iter_Init", "Tree_New", "Tree_Get", "Tree_Iter_Init",
             "range_stack", "slice_stack", "zip_stack", "Zip_Iter_Init", "Slice_Iter_Init", "dealloc", "del_raw"]
ASSUMPTIONS = []
EXPLANATION = "every way of obtaining an object executed on the real library with concrete shapes; type_of / allocation class / magic / usable size asserted; freeing of non-heap objects via the C12 misuse cases"
US = ["Type_Scan.0:40", "Type_Scan.1:40", "strcmp.0:26", "strlen.0:8", "strcpy.0:8", "Tuple_Len.0:8", "memcpy.0:14", "memcpy.1:30", "memset.0:14", "memset.1:30", "Table_Ideal_Size.0:26"]
CASES = [Ob("objects.case%d" % c, "C19/object_types.c", defs=["CASE=%d" % c], config="ngc", unwind=12, unwindset=US, checks=["bounds", "pointer"], tiers=("quick", "thorough"),
            object_bits=14, timeout=1200, mem_gb=8, fs_size=2048, desc="object provenance group %d" % c) for c in (1, 3, 4, 5)]
for o_ in CASES:
    if o_.name.endswith("case4"):
        o_.tiers = ("probe",)   # Table/Tree keys and values through the real dispatch did not finish; the embedded-header clause for them is in the C02/C03 step invariants
# group 2 (run-time Type built by Type_New on the heap) is not decided: the 6 KB heap type record defeats constant folding and the dispatcher explodes (see DESIGN.md)
OBLIGATIONS = (
    CASES
    + pick("C12", r"misuse\.case(08|09|10|11|12|14|15|16|17|22)$", tiers=("quick", "thorough"))
    + pick("C02", r"table\.(get\.home0|set\.home0|iter)\.ns5", tiers=("quick", "thorough"))
    + pick("C04", r"array\.(getset|iter)\.n2", tiers=("quick", "thorough"))
    + pick("C03", r"tree\.get\.q[35]$", tiers=("quick", "thorough"))
)
LEVEL_TEXT = ("Bounded model checking / symbolic execution on concrete object shapes: type_of, allocation class, magic and usable size for every provenance (new, new_raw, new_root, alloc, $, copy, "
              "run-time Type, elements/keys/values of Array, List, Table, Tree, iterator and view results); refusal to free or reallocate stack/static/embedded objects (ResourceError/ValueError, object intact); "
              "embedded headers after internal moves are part of the C02/C03/C04 step invariants.")
LEVEL_NOTE = "Trusted: cbmc (its malloc/free model reports double free and free of non-heap memory under --pointer-check); built with CELLO_NGC for new/copy; the collector's own freeing is C06."
