#define eq verif_eq
#define hash verif_hash
#define assign verif_assign
#define destruct verif_destruct
#include "/repo/src/Table.c"
#undef eq
#undef hash
#undef assign
#undef destruct
#ifndef NS
#define NS 5
#endif
#define D 6
uint64_t H[D];           /* arbitrary hash function over the key domain */
int live = 0;            /* ledger: live embedded elements (keys+vals) */
bool verif_eq(var a, var b) { return ((struct Int*)a)->val == ((struct Int*)b)->val; }
uint64_t verif_hash(var a) { int64_t k = ((struct Int*)a)->val; __CPROVER_assert(k >= 0 && k < D, "key in domain"); return H[k]; }
var verif_assign(var dst, var src) { ((struct Int*)dst)->val = ((struct Int*)src)->val; live++; return dst; }
var verif_destruct(var x) { live--; return x; }
var thrown;
var exception_throw(var obj, const char* fmt, var args) { thrown = obj; __CPROVER_assert(0, "unexpected throw"); __CPROVER_assume(0); return NULL; }
int64_t nondet_i64(void); uint64_t nondet_u64(void); _Bool nondet_bool(void);

static uint64_t slot_hash(struct Table* t, size_t i) { return Table_Key_Hash(t, i); }
static int64_t slot_key(struct Table* t, size_t i) { return ((struct Int*)Table_Key(t, i))->val; }
static int64_t slot_val(struct Table* t, size_t i) { return ((struct Int*)Table_Val(t, i))->val; }

/* representation invariant */
static _Bool inv(struct Table* t) {
  size_t occ = 0;
  for (size_t i = 0; i < NS; i++) {
    uint64_t h = slot_hash(t, i);
    if (h == 0) continue;
    occ++;
    int64_t k = slot_key(t, i);
    if (k < 0 || k >= D) return 0;
    if (h != H[k] % NS + 1) return 0;                 /* stored home slot == hash % nslots */
    uint64_t p = Table_Probe(t, i, h);
    /* every slot between home and i is occupied with probe >= its distance from... robin hood ordering */
    for (size_t d = 0; d < NS; d++) {
      if (d >= p) break;
      size_t j = (h - 1 + d) % NS;
      uint64_t hj = slot_hash(t, j);
      if (hj == 0) return 0;
      if (Table_Probe(t, j, hj) < d) return 0;
    }
    for (size_t j = 0; j < NS; j++) if (j != i && slot_hash(t, j) != 0 && slot_key(t, j) == k) return 0; /* no dup */
  }
  return occ == t->nitems && occ < NS;
}
static _Bool model_mem(struct Table* t, int64_t q, int64_t* v) {
  for (size_t i = 0; i < NS; i++) if (slot_hash(t, i) != 0 && slot_key(t, i) == q) { *v = slot_val(t, i); return 1; }
  return 0;
}
void harness(void) {
  struct Table* t = new_raw(Table, Int, Int);
  /* arbitrary pre-state with NS slots */
  t->nslots = NS; t->data = calloc(NS, Table_Step(t)); 
  t->sspace0 = calloc(1, Table_Step(t)); t->sspace1 = calloc(1, Table_Step(t));
  __CPROVER_assume(t->data && t->sspace0 && t->sspace1);
  size_t n = 0;
  for (size_t i = 0; i < NS; i++) {
    if (nondet_bool()) {
      uint64_t h = nondet_u64(); __CPROVER_assume(h >= 1 && h <= NS);
      *(uint64_t*)((char*)t->data + i * Table_Step(t)) = h;
      header_init((char*)t->data + i * Table_Step(t) + 8, Int, AllocData);
      header_init((char*)t->data + i * Table_Step(t) + 8 + sizeof(struct Header) + 8, Int, AllocData);
      ((struct Int*)Table_Key(t, i))->val = nondet_i64();
      ((struct Int*)Table_Val(t, i))->val = nondet_i64();
      n++;
    }
  }
  t->nitems = n;
  __CPROVER_assume(inv(t));
  __CPROVER_assume(n + 1 < NS);       /* room: Table_Set grows afterwards; here: Set_Move precondition */
  int64_t q = nondet_i64(); __CPROVER_assume(q >= 0 && q < D);
  int64_t pre_v = 0; _Bool pre_m = model_mem(t, q, &pre_v);
  int64_t k = nondet_i64(), v = nondet_i64(); __CPROVER_assume(k >= 0 && k < D);
  int64_t dummy; _Bool k_in = model_mem(t, k, &dummy);
  live = 2 * (int)n;
  Table_Set_Move(t, $I(k), $I(v), false);
#ifdef WITNESS
  __CPROVER_assert(0, "reachability witness");
#endif
  __CPROVER_assert(inv(t), "invariant preserved");
  int64_t post_v = 0; _Bool post_m = model_mem(t, q, &post_v);
  if (q == k) __CPROVER_assert(post_m && post_v == v, "set binds k to v");
  else __CPROVER_assert(post_m == pre_m && (!pre_m || post_v == pre_v), "other keys untouched");
  __CPROVER_assert(t->nitems == n + (k_in ? 0 : 1), "len counts bindings");
  __CPROVER_assert(live == 2 * (int)t->nitems, "ledger: live elements == 2*len");
}
