#include "Cello.h"
int64_t nondet_i64(void);
void harness(void) {
  int64_t a = nondet_i64(), b = nondet_i64();
  var x = $I(a); var y = $I(b);
  int c = cmp(x, y);
  int ref = a < b ? -1 : a > b ? 1 : 0;
  int s = c < 0 ? -1 : c > 0 ? 1 : 0;
  __CPROVER_assert(s == ref, "cmp sign matches order");
}
