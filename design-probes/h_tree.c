#define cmp verif_cmp
#define assign verif_assign
#define destruct verif_destruct
#include "/repo/src/Tree.c"
#undef cmp
#undef assign
#undef destruct
int live = 0;
int verif_cmp(var a, var b) { int64_t x = ((struct Int*)a)->val, y = ((struct Int*)b)->val; return x < y ? -1 : x > y ? 1 : 0; }
var verif_assign(var dst, var src) { ((struct Int*)dst)->val = ((struct Int*)src)->val; live++; return dst; }
var verif_destruct(var x) { live--; return x; }
var exception_throw(var obj, const char* fmt, var args) { __CPROVER_assert(0, "unexpected throw"); __CPROVER_assume(0); return NULL; }
int64_t nondet_i64(void); _Bool nondet_bool(void);
#define SK 7   /* skeleton: complete binary tree of depth 3 */
static var N[SK];
static int64_t keyof(struct Tree* m, var n) { return ((struct Int*)Tree_Key(m, n))->val; }
/* checks RB invariants over at most depth D; returns black height or -1 */
static int check(struct Tree* m, var n, var parent, int64_t lo, int64_t hi, int d, size_t* count) {
  if (n == NULL) return 1;
  if (d == 0) return -1;
  if (Tree_Get_Parent(m, n) != parent) return -1;
  int64_t k = keyof(m, n);
  if (!(k > lo && k < hi)) return -1;
  (*count)++;
  _Bool red = Tree_Is_Red(m, n);
  if (red && (Tree_Is_Red(m, *Tree_Left(m, n)) || Tree_Is_Red(m, *Tree_Right(m, n)))) return -1;
  /* Cello orientation: larger keys to the left */
  int bl = check(m, *Tree_Left(m, n), n, k, hi, d - 1, count);
  int br = check(m, *Tree_Right(m, n), n, lo, k, d - 1, count);
  if (bl < 0 || br < 0 || bl != br) return -1;
  return bl + (red ? 0 : 1);
}
static _Bool inv(struct Tree* m, int depth) {
  size_t c = 0;
  if (m->root && Tree_Is_Red(m, m->root)) return 0;
  int bh = check(m, m->root, NULL, -100, 100, depth, &c);
  return bh >= 0 && c == m->nitems;
}
static _Bool model_mem(struct Tree* m, var n, int64_t q, int d) {
  if (n == NULL || d == 0) return 0;
  if (keyof(m, n) == q) return 1;
  return model_mem(m, *Tree_Left(m, n), q, d - 1) || model_mem(m, *Tree_Right(m, n), q, d - 1);
}
void harness(void) {
  struct Tree* m = new_raw(Tree, Int, Int);
  _Bool present[SK]; size_t n = 0;
  for (int i = 0; i < SK; i++) {
    N[i] = Tree_Alloc(m);
    present[i] = nondet_bool();
    if (i > 0) __CPROVER_assume(!present[i] || present[(i - 1) / 2]);
    int64_t k = nondet_i64(); __CPROVER_assume(k > -8 && k < 8);
    ((struct Int*)Tree_Key(m, N[i]))->val = k;
    ((struct Int*)Tree_Val(m, N[i]))->val = nondet_i64();
    if (present[i]) n++;
  }
  for (int i = 0; i < SK; i++) {
    *Tree_Left(m, N[i])  = (2*i+1 < SK && present[2*i+1]) ? N[2*i+1] : NULL;
    *Tree_Right(m, N[i]) = (2*i+2 < SK && present[2*i+2]) ? N[2*i+2] : NULL;
    Tree_Set_Color(m, N[i], nondet_bool());
    Tree_Set_Parent(m, N[i], i == 0 ? NULL : N[(i - 1) / 2]);
  }
  m->root = present[0] ? N[0] : NULL; m->nitems = n;
  __CPROVER_assume(inv(m, 3));
  live = 2 * (int)n;
  int64_t q = nondet_i64(); __CPROVER_assume(q > -8 && q < 8);
  _Bool pre_m = model_mem(m, m->root, q, 3);
  int64_t k = nondet_i64(), v = nondet_i64(); __CPROVER_assume(k > -8 && k < 8);
  _Bool k_in = model_mem(m, m->root, k, 3);
#ifdef OP_REM
  __CPROVER_assume(k_in);
  Tree_Rem(m, $I(k));
  __CPROVER_assert(inv(m, 4), "red-black invariant after rem");
  __CPROVER_assert(model_mem(m, m->root, q, 4) == (q == k ? 0 : pre_m), "rem removes exactly k");
  __CPROVER_assert(m->nitems == n - 1, "len");
#else
  Tree_Set(m, $I(k), $I(v));
  __CPROVER_assert(inv(m, 4), "red-black invariant after set");
  __CPROVER_assert(model_mem(m, m->root, q, 4) == (q == k ? 1 : pre_m), "set adds exactly k");
  __CPROVER_assert(m->nitems == n + (k_in ? 0 : 1), "len");
#endif
#ifdef WITNESS
  __CPROVER_assert(0, "witness");
#endif
}
