#include "Cello.h"
var thrown_obj;
var exception_throw(var obj, const char* fmt, var args) {
  thrown_obj = obj;
  __CPROVER_assert(0, "unexpected throw");
  __CPROVER_assume(0);
  return NULL;
}
