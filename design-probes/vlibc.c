#include <stddef.h>
#include <stdint.h>
void *memcpy(void *dst, const void *src, size_t n) {
  if (n % 8 == 0 && __CPROVER_POINTER_OFFSET(dst) % 8 == 0 && __CPROVER_POINTER_OFFSET(src) % 8 == 0) {
    for (size_t i = 0; i < n / 8; i++) { ((void**)dst)[i] = ((void* const*)src)[i]; ((uint64_t*)dst)[i] = ((const uint64_t*)src)[i]; }
  } else {
    for (size_t i = 0; i < n; i++) ((char*)dst)[i] = ((const char*)src)[i];
  }
  return dst;
}
void *memset(void *s, int c, size_t n) {
  if (n % 8 == 0 && __CPROVER_POINTER_OFFSET(s) % 8 == 0) {
    uint64_t b = (unsigned char)c; uint64_t w = b * 0x0101010101010101ULL;
    for (size_t i = 0; i < n / 8; i++) ((uint64_t*)s)[i] = w;
  } else {
    for (size_t i = 0; i < n; i++) ((unsigned char*)s)[i] = (unsigned char)c;
  }
  return s;
}
void *memmove(void *dst, const void *src, size_t n) {
  int fwd = !__CPROVER_same_object(dst, src) || __CPROVER_POINTER_OFFSET(dst) <= __CPROVER_POINTER_OFFSET(src);
  if (n % 8 == 0 && __CPROVER_POINTER_OFFSET(dst) % 8 == 0 && __CPROVER_POINTER_OFFSET(src) % 8 == 0) {
    size_t w = n / 8;
    if (fwd) { for (size_t i = 0; i < w; i++) { ((void**)dst)[i] = ((void* const*)src)[i]; ((uint64_t*)dst)[i] = ((const uint64_t*)src)[i]; } }
    else { for (size_t i = w; i > 0; i--) { ((void**)dst)[i-1] = ((void* const*)src)[i-1]; ((uint64_t*)dst)[i-1] = ((const uint64_t*)src)[i-1]; } }
  } else {
    if (fwd) { for (size_t i = 0; i < n; i++) ((char*)dst)[i] = ((const char*)src)[i]; }
    else { for (size_t i = n; i > 0; i--) ((char*)dst)[i-1] = ((const char*)src)[i-1]; }
  }
  return dst;
}
