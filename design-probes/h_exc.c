#define current verif_current
#define print_to_with verif_print_to_with
#define eq verif_eq
#define len verif_len
#define instance verif_instance
#include "/repo/src/Exception.c"
#undef current
#undef print_to_with
#undef eq
#undef len
#undef instance
/* environment */
static struct Exception EXC;             /* the per-thread record, constructed directly */
var verif_current(var type) { return &EXC; }
bool verif_eq(var a, var b) { return a == b; }
int verif_print_to_with(var out, int pos, const char* fmt, var args) { return pos; }

/* filter tuple as environment: a harness array, iterated by harness functions */
static var FILT[3]; 
size_t verif_len(var self) { size_t n = 0; while (n < 2 && FILT[n] != Terminal) n++; return n; }
static var f_init(var self) { return FILT[0]; }
static var f_next(var self, var curr) { return curr == FILT[0] ? FILT[1] : Terminal; }
static struct Iter FILT_ITER = { f_init, f_next, NULL, NULL, NULL };
var verif_instance(var self, var cls) { return &FILT_ITER; }
jmp_buf* pending = NULL;                 /* set by the longjmp model */
int exited = 0;
void longjmp(jmp_buf env, int val) { pending = (jmp_buf*)env; }
void exit(int status) { exited = 1 + status; }
int nondet_int(void);

/* symbolic program tree: node kinds */
enum { K_NOP, K_THROW, K_TRY };
#define NN 5
struct Node { int kind; int exc; int body; int handler; int filter; int next; };
struct Node P[NN];
var EX[2];
int trace_impl[16], ni; int trace_spec[16], ns;
static void ev_impl(int e) { if (ni < 16) trace_impl[ni++] = e; }
static void ev_spec(int e) { if (ns < 16) trace_spec[ns++] = e; }

/* implementation interpreter: drives the real exception_* functions exactly as the try/catch/throw macros expand */
static int run_impl(int n, int depth) {          /* returns 1 if a longjmp is pending (unwinding) */
  while (n >= 0) {
    struct Node* p = &P[n];
    if (p->kind == K_NOP) { ev_impl(100 + n); }
    else if (p->kind == K_THROW) {
      exception_throw(EX[p->exc], "x", NULL);
      if (exited) return 2;
      return 1;
    } else {
      jmp_buf env; exception_try(&env);
      int r = run_impl(p->body, depth + 1);                 /* setjmp returned 0: body */
      if (r == 2) return 2;
      if (r == 1) { if (pending != &env) return 1;  pending = NULL; exception_try_fail(); }   /* setjmp returns 1 */
      exception_try_end();
      FILT[0] = (p->filter & 1) ? EX[0] : (p->filter & 2) ? EX[1] : Terminal;
      FILT[1] = (p->filter == 3) ? EX[1] : Terminal; FILT[2] = Terminal;
      var args = NULL;
      var X = exception_catch(args);
      if (exited) return 2;
      if (pending) return 1;                                 /* re-raised outward */
      if (X != NULL) { ev_impl(200 + (X == EX[0] ? 0 : 1)); int r2 = run_impl(p->handler, depth + 1); if (r2) return r2; }
    }
    n = p->next;
  }
  return 0;
}
/* reference semantics: returns -1 normal, else pending exception kind */
static int run_spec(int n) {
  while (n >= 0) {
    struct Node* p = &P[n];
    if (p->kind == K_NOP) { ev_spec(100 + n); }
    else if (p->kind == K_THROW) { return p->exc; }
    else {
      int e = run_spec(p->body);
      if (e >= 0) {
        int match = p->filter == 0 || (p->filter & (1 << e));
        if (!match) return e;
        ev_spec(200 + e);
        int e2 = run_spec(p->handler); if (e2 >= 0) return e2;
      }
    }
    n = p->next;
  }
  return -1;
}
void harness(void) {
  EX[0] = TypeError; EX[1] = KeyError;
  EXC.depth = 0; EXC.active = false; EXC.obj = NULL; EXC.msg = NULL;
  P[0] = (struct Node){K_TRY, 0, 1, 4, nondet_int(), -1};
  P[1] = (struct Node){K_TRY, 0, 2, -1, nondet_int(), 3};
  P[2] = (struct Node){K_THROW, nondet_int(), -1, -1, 0, -1};
  P[3] = (struct Node){K_NOP, 0, -1, -1, 0, -1};
  P[4] = (struct Node){K_NOP, 0, -1, -1, 0, -1};
  __CPROVER_assume(P[0].filter >= 0 && P[0].filter <= 3 && P[1].filter >= 0 && P[1].filter <= 3 && P[2].exc >= 0 && P[2].exc <= 1);
  int r = run_impl(0, 0);
  int e = run_spec(0);
  __CPROVER_assert((r == 2) == (e >= 0), "uncaught exception terminates the program iff spec says uncaught");
  if (r != 2) {
    __CPROVER_assert(r == 0, "no dangling jump");
    __CPROVER_assert(EXC.depth == 0, "nesting depth restored");
  }
  __CPROVER_assert(ni == ns, "same number of events");
  for (int i = 0; i < 16; i++) if (i < ni && i < ns) __CPROVER_assert(trace_impl[i] == trace_spec[i], "same events");
}
