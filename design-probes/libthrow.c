typedef void* var;
var verif_lib_throw(var obj, const char* fmt, var args) { __CPROVER_assert(0, "library-internal throw in exception harness"); __CPROVER_assume(0); return 0; }
