#include "/repo/src/Iter.c"
int64_t nondet_i64(void);
var exception_throw(var obj, const char* fmt, var args) { __CPROVER_assert(0, "unexpected throw"); __CPROVER_assume(0); return NULL; }
#define B 6
void harness(void) {
  int64_t a = nondet_i64(), b = nondet_i64(), s = nondet_i64();
  __CPROVER_assume(a >= -B && a <= B && b >= -B && b <= B && s >= -3 && s <= 3);
  struct Range* r = $(Range, $I(0), a, b, s);
  /* definition: step>0: a, a+s, ... < b ; step<0: b-1, b-1+s, ... >= a ; step==0: empty */
  size_t n = 0; int64_t first = 0;
  var c = Range_Iter_Init(r);
  int64_t expect = s > 0 ? a : b - 1;
  while (c != Terminal && n < 2*B+2) {
    __CPROVER_assert(((struct Int*)r->value)->val == expect, "i-th item is start + i*step");
    expect += s; n++;
    c = Range_Iter_Next(r, c);
  }
  __CPROVER_assert(c == Terminal, "iteration terminates");
  size_t want = 0;
  if (s > 0 && b > a) want = (size_t)((b - a + s - 1) / s);
  if (s < 0 && b > a) want = (size_t)((b - a + (-s) - 1) / (-s));
  __CPROVER_assert(n == want, "number of items matches the definition");
  __CPROVER_assert(Range_Len(r) == n, "len equals number of items iterated");
}
