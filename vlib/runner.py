"""Obligation runner, native replay, evidence and verdict logic."""
import json, os, re, sys, time, threading, shutil
from concurrent.futures import ThreadPoolExecutor
from .core import *

REPLAYS = os.path.join(VERIF, "replays")


def load_known_findings():
    """known_findings.txt: lines 'known: property=<id> key=<key> <text>' / 'fixed: property=<id> <commit> <text>'"""
    known = {}
    fixed = []
    p = os.path.join(VERIF, "known_findings.txt")
    if os.path.exists(p):
        for line in open(p):
            line = line.strip()
            if line.startswith("known:"):
                m = re.match(r"known:\s+property=(\S+)\s+key=(\S+)\s+(.*)", line)
                if m:
                    known[(m.group(1), m.group(2))] = m.group(3)
            elif line.startswith("fixed:"):
                fixed.append(line)
    return known, fixed


def compile_and_link(builder, ob, workdir):
    objs = dict(builder.lib(ob.config, ob.throw, ob.libdefs, ob.filedefs))
    hsrc = os.path.join(VERIF, "harness", ob.harness)
    ho = os.path.join(workdir, "harness.o")
    flags = BASE_CFLAGS + CONFIGS[ob.config] + ["-DVERIF_REPO=\"%s\"" % REPO] + ["-D" + d for d in ob.defs]
    if ob.gen:
        try:
            ob.gen_info = ob.gen(REPO, workdir)
        except Exception as e:
            raise BuildError("generator failed for %s: %s" % (ob.name, e))
        flags = flags + ["-I", workdir]
    r = run(["goto-cc"] + flags + ["-c", hsrc, "-o", ho])
    if r["rc"] != 0:
        raise BuildError("goto-cc failed on harness %s:\n%s" % (ob.harness, r["err"][-4000:]))
    link = [ho]
    for f, o in objs.items():
        if f in ob.replace:
            continue
        if f.startswith("@"):
            if f == "@env_throw.c" and ob.throw != "stub":
                continue
            link.append(o)
            continue
        if ob.link != "all" and f not in ob.link:
            continue
        link.append(o)
    for s in ob.srcs_extra:
        o = os.path.join(workdir, os.path.basename(s)[:-2] + ".o")
        r = run(["goto-cc"] + flags + ["-c", os.path.join(VERIF, "lib", s), "-o", o])
        if r["rc"] != 0:
            raise BuildError("goto-cc failed on lib/%s:\n%s" % (s, r["err"][-3000:]))
        link.append(o)
    gb = os.path.join(workdir, "p.gb")
    r = run(["goto-cc"] + link + ["-o", gb])
    if r["rc"] != 0:
        raise BuildError("goto-cc link failed for %s:\n%s" % (ob.name, r["err"][-4000:]))
    if ob.replace_calls:
        gb2 = os.path.join(workdir, "p1.gb")
        cmd = ["goto-instrument"]
        for s_ in ob.replace_calls:
            cmd += ["--replace-calls", s_]
        r = run(cmd + [gb, gb2])
        if r["rc"] != 0:
            raise BuildError("goto-instrument --replace-calls failed for %s:\n%s\n%s" % (ob.name, r["out"][-2000:], r["err"][-2000:]))
        gb = gb2
    if ob.fp_restrict:
        gb2 = os.path.join(workdir, "p2.gb")
        cmd = ["goto-instrument"]
        for s in ob.fp_restrict:
            cmd += ["--restrict-function-pointer", s]
        r = run(cmd + [gb, gb2])
        if r["rc"] != 0:
            raise BuildError("goto-instrument failed for %s:\n%s\n%s" % (ob.name, r["out"][-2000:], r["err"][-2000:]))
        gb = gb2
    return gb


def cbmc_cmd(ob, gb):
    cmd = ["cbmc", gb, "--function", ob.entry, "--object-bits", str(ob.object_bits), "--max-field-sensitivity-array-size", str(ob.fs_size)] + CBMC_BASE + ["--unwind", str(ob.unwind)]
    if ob.unwindset:
        cmd += ["--unwindset", ",".join(ob.unwindset)]
    for c in ob.checks:
        cmd.append(CHECK_FLAGS[c])
    if ob.backend == "cadical":
        cmd += ["--sat-solver", "cadical"]
    elif ob.backend == "kissat":
        cmd += ["--external-sat-solver", "kissat"]
    elif ob.backend == "cvc5":
        cmd += ["--cvc5"]
    elif ob.backend == "z3":
        cmd += ["--z3"]
    cmd += ob.extra
    return cmd


NATIVE_CFLAGS = ["-I", os.path.join(REPO, "include"), "-I", os.path.join(REPO, "src"), "-I", os.path.join(VERIF, "lib"), "-std=gnu99",
                 "-DCELLO_NSTRACE", "-DV_NATIVE", "-g", "-O0", "-w",
                 "-fsanitize=address,undefined", "-DVERIF_REPO=\"%s\"" % REPO]
_native_lock = threading.Lock()
_native_cache = {}


def native_lib(ob, root):
    """gcc+ASan+UBSan objects of the real sources for this obligation's configuration (cached per run)"""
    key = (ob.config, ob.throw, tuple(ob.libdefs), tuple(sorted((k, tuple(v)) for k, v in ob.filedefs.items())))
    with _native_lock:
        if key in _native_cache and os.path.isdir(_native_cache[key][0]):
            return _native_cache[key][1]
        d = os.path.join(root, "nativelib-%d" % len(_native_cache))
        os.makedirs(d, exist_ok=True)
        cflags = NATIVE_CFLAGS + CONFIGS[ob.config]
        objs = {}
        cmds = []
        for f in src_files():
            fl = list(cflags) + list(ob.libdefs) + list(ob.filedefs.get(f, []))
            if ob.throw == "stub" and f == "Exception.c":
                fl.append("-Dexception_throw=cello_real_exception_throw")
            if ob.throw == "real" and f != "Exception.c":
                fl.append("-Dexception_throw=verif_lib_throw")
            o = os.path.join(d, f[:-2] + ".o")
            objs[f] = o
            cmds.append(["gcc"] + fl + ["-c", os.path.join(REPO, "src", f), "-o", o])
        o = os.path.join(d, "env_throw.o")
        objs["@env_throw.c"] = o
        cmds.append(["gcc"] + cflags + ["-c", os.path.join(VERIF, "lib", "env_throw.c"), "-o", o])
        with ThreadPoolExecutor(16) as ex:
            for r in ex.map(run, cmds):
                if r["rc"] != 0:
                    return dict(error=r["err"][-3000:])
        _native_cache[key] = (d, objs)
        return objs


def native_replay(ob, inputs_c, workdir, tag, stop_at_witness=False, expect_msg=None):
    """compile the same harness natively against the real sources and run it on the solver's inputs"""
    d = os.path.join(workdir, "native-" + tag)
    os.makedirs(d, exist_ok=True)
    lib = native_lib(ob, os.path.dirname(workdir.rstrip("/")))
    if "error" in lib:
        return dict(status="build-failed", output=lib["error"])
    hsrc = os.path.join(VERIF, "harness", ob.harness)
    rin = os.path.join(d, "replay_input.c")
    with open(rin, "w") as f:
        f.write("#include \"%s\"\n" % hsrc)
        f.write("const struct Inputs IN_REPLAY = %s;\n" % (inputs_c or "{0}"))
    hflags = NATIVE_CFLAGS + CONFIGS[ob.config] + ["-D" + x for x in ob.defs]
    if ob.gen:
        ob.gen(REPO, d)
        hflags = hflags + ["-I", d]
    cmds = []
    objs = []
    for f, o in lib.items():
        if f in ob.replace:
            continue
        if f == "@env_throw.c":
            if ob.throw == "stub":
                objs.append(o)
            continue
        nl = ob.native_link if ob.native_link is not None else ob.link
        if nl != "all" and f not in nl:
            continue
        objs.append(o)
    for s in ob.srcs_extra:
        o = os.path.join(d, os.path.basename(s)[:-2] + ".o")
        objs.append(o)
        cmds.append(["gcc"] + hflags + ["-c", os.path.join(VERIF, "lib", s), "-o", o])
    o = os.path.join(d, "harness.o")
    objs.append(o)
    cmds.append(["gcc"] + hflags + ["-c", hsrc, "-o", o])
    o = os.path.join(d, "replay_input.o")
    objs.append(o)
    cmds.append(["gcc"] + hflags + ["-DV_REPLAY_INPUT_ONLY", "-c", rin, "-o", o])
    for r in map(run, cmds):
        if r["rc"] != 0:
            return dict(status="build-failed", output=r["err"][-3000:])
    exe = os.path.join(d, "replay")
    r = run(["gcc", "-fsanitize=address,undefined"] + objs + ["-o", exe, "-lm", "-lpthread"])
    if r["rc"] != 0:
        return dict(status="build-failed", output=r["err"][-3000:])
    env = dict(os.environ)
    env["ASAN_OPTIONS"] = "detect_leaks=0:abort_on_error=0"
    if stop_at_witness:
        env["V_STOP_AT_WITNESS"] = "1"
    r = run([exe], timeout=60, env=env, cwd=d)
    out = (r["out"] + "\n" + r["err"])[-4000:]
    if "REPLAY-INVALID" in r["out"]:
        st = "invalid"
    elif "REPLAY-ASSERT-FAILED" in r["out"]:
        m = re.search(r"REPLAY-ASSERT-FAILED: (.*) \(", r["out"])
        if expect_msg is None or (m and m.group(1).strip() == expect_msg.strip()):
            st = "reproduced"
        else:
            st = "reproduced-other-assertion"
    elif "AddressSanitizer" in r["err"] or "runtime error" in r["err"]:
        st = "reproduced-sanitizer"
    elif r["timeout"]:
        st = "reproduced-nontermination"
    elif r["rc"] == 0:
        st = "not-reproduced"
    else:
        st = "crashed(rc=%s)" % r["rc"]
    shutil.rmtree(d, ignore_errors=True)
    return dict(status=st, output=out)


def run_ob(builder, ob, scratch, replay_dir, want_native=True):
    t0 = time.time()
    workdir = os.path.join(scratch.dir, "ob-" + re.sub(r"[^A-Za-z0-9_.-]", "_", ob.name))
    os.makedirs(workdir, exist_ok=True)
    res = dict(name=ob.name, harness=ob.harness, desc=ob.desc, defs=ob.defs, config=ob.config,
               unwind=ob.unwind, unwindset=ob.unwindset, checks=ob.checks, backend=ob.backend or "minisat",
               verdict=None, failures=[], witness=None, stats={}, wall_s=0, error=None, known_hits=[])
    try:
        gb = compile_and_link(builder, ob, workdir)
    except BuildError as e:
        res["verdict"] = "ERROR"
        res["error"] = str(e)
        res["wall_s"] = time.time() - t0
        return res
    # solver ladder: a back end that hangs on ONE instance of a family it otherwise decides in seconds is a heuristic
    # accident; before reporting "inconclusive" the same query is retried with another seed (z3) / another SAT solver.
    # Every attempt decides the same formula; only a verdict counts, a timeout never does.
    first = ob.backend
    if first == "z3":
        rs = getattr(ob, "retry_s", None)
        if rs:      # queries of a family known to answer in seconds: several short attempts with different seeds, then one long one
            ladder = [("z3", k_, float(rs) / ob.timeout) for k_ in range(6)] + [("z3", 6, 0.5)]
        else:
            ladder = [("z3", 0, 0.34), ("z3", 1, 0.33), ("z3", 2, 0.33)]
    elif first in (None, "minisat"):
        ladder = [(None, 0, 1.0), ("cadical", 0, 0.5)]
    elif first == "cadical":
        ladder = [("cadical", 0, 1.0), (None, 0, 0.5)]
    else:
        ladder = [(first, 0, 1.0)]
    outf = os.path.join(workdir, "cbmc.json")
    env = dict(os.environ)
    env["PATH"] = os.path.join(VERIF, "tools", "shim") + os.pathsep + env.get("PATH", "")
    res["attempts"] = []
    for be, seed, share in ladder:
        ob.backend = be
        cmd = cbmc_cmd(ob, gb)
        env["VERIF_Z3_SEED"] = str(seed)
        with open(outf, "wb") as fo:
            r = run(cmd, timeout=max(15, int(ob.timeout * share)), mem_gb=ob.mem_gb, stdout=fo, env=env)
        res["attempts"].append(dict(backend=be or "minisat", seed=seed, wall_s=round(r["wall"], 1), timed_out=bool(r["timeout"])))
        if not r["timeout"]:
            break
        if "symex_s" not in parse_cbmc_json(open(outf, "r", errors="replace").read())["stats"]:
            break               # timed out before the formula was built: another solver would not help
    ob.backend = first
    res["cmd"] = " ".join(cmd[2:])
    res["backend"] = (be or "minisat") + ((":seed%d" % seed) if be == "z3" and seed else "")
    text = open(outf, "r", errors="replace").read()
    if os.environ.get("VERIF_DEBUG"):
        os.makedirs("/tmp/verif-debug", exist_ok=True)
        shutil.copy(outf, "/tmp/verif-debug/%s.json" % re.sub(r"[^A-Za-z0-9_.-]", "_", ob.name))
        shutil.copy(gb, "/tmp/verif-debug/%s.gb" % re.sub(r"[^A-Za-z0-9_.-]", "_", ob.name))
    res["cbmc_wall_s"] = round(r["wall"], 2)
    if r["timeout"]:
        res["verdict"] = "INCONCLUSIVE"
        part = parse_cbmc_json(text)
        res["stats"] = part["stats"]
        phase = "symex" if "symex_s" not in part["stats"] else "solver"
        res["error"] = "cbmc exceeded the wall-clock cap of %ds on every solver attempt %s (in %s; last: %s)" % (ob.timeout, [(a["backend"], a["seed"]) for a in res["attempts"]], phase, " | ".join(part["messages"][-2:])[:200])
        res["wall_s"] = time.time() - t0
        _cleanup(workdir)
        return res
    parsed = parse_cbmc_json(text)
    res["stats"] = parsed["stats"]
    if parsed["status"] is None:
        res["verdict"] = "INCONCLUSIVE"
        msg = parsed["error"] or ""
        tail = (r["err"] or "")[-1500:]
        res["error"] = "cbmc gave no verdict (rc=%s): %s %s %s" % (r["rc"], msg[-1500:], tail, " | ".join(parsed["messages"][-3:]))
        res["wall_s"] = time.time() - t0
        _cleanup(workdir)
        return res
    if parsed["error"]:
        res["verdict"] = "INCONCLUSIVE"
        res["error"] = "cbmc reported an error, verdicts not trusted: " + parsed["error"][:600]
        res["wall_s"] = time.time() - t0
        _cleanup(workdir)
        return res
    witness_seen = 0
    witness_ok = 0
    for p in parsed["props"]:
        d = p["description"] or ""
        if d.startswith("OPTWITNESS:"):
            if p["status"] == "FAILURE":
                res["opt_witness_reached"] = res.get("opt_witness_reached", 0) + 1
            continue
        if d.startswith("WITNESS:"):
            witness_seen += 1
            if p["status"] == "FAILURE":
                witness_ok += 1
                if res.get("sample") is None and p["inputs"] is not None:
                    res["sample"] = dict(witness=d, inputs=p["inputs"])
                    res["sample_c"] = p["inputs_c"]
            continue
        if p["status"] == "FAILURE":
            res["failures"].append(p)
    res["witness"] = dict(seen=witness_seen, reached=witness_ok)
    res["n_props"] = len(parsed["props"])
    res["n_props_ok"] = sum(1 for p in parsed["props"] if p["status"] == "SUCCESS")
    # standard-level UB that cbmc's --pointer-check flags but that has no observable effect on a flat
    # address space (relational comparison of pointers into different objects, e.g. Table_Get's
    # "is the key inside my storage" test): listed separately, never a VIOLATION
    ub = [p for p in res["failures"] if (p["description"] or "").startswith("same object violation")]
    res["ub_notes"] = sorted(set("%s: %s" % (p["property"], p["description"]) for p in ub))
    res["failures"] = [p for p in res["failures"] if p not in ub]
    # an environment model reached by something it does not model (e.g. a printf directive outside
    # lib/env_printf.c): the run says nothing about the property -- inconclusive, never a VIOLATION
    limits = [p for p in res["failures"] if "MODEL-LIMIT:" in (p["description"] or "")]
    unwinding = [p for p in res["failures"] if "unwinding assertion" in (p["description"] or "")]
    real = [p for p in res["failures"] if p not in unwinding and p not in limits]
    if limits:
        res["verdict"] = "INCONCLUSIVE"
        res["error"] = "environment model limit reached: " + "; ".join(sorted(set(p["description"] for p in limits))[:3])
        real = []
    elif unwinding and not real:
        res["verdict"] = "INCONCLUSIVE"
        res["error"] = "unwinding assertion failed (bound too small): " + "; ".join(
            "%s %s" % (p["property"], p["description"]) for p in unwinding[:5])
    elif real:
        res["verdict"] = "FAILED"
    elif not ob.nowitness and ((witness_seen == 0 and not res.get("opt_witness_reached")) or witness_ok < witness_seen):
        res["verdict"] = "VACUOUS"
        res["error"] = "reachability witness not reached (%d of %d): assumptions unsatisfiable or assertion unreachable" % (witness_ok, witness_seen)
    else:
        res["verdict"] = "HOLDS"
    # replay: the witness model on every run (harness <-> native correspondence), failures always
    res["replays"] = []
    if want_native and ob.native and not ob.replace_calls:
        if res.get("sample_c") and res["verdict"] in ("HOLDS",):
            env_w = native_replay_witness(ob, res["sample_c"], workdir)
            res["witness_replay"] = env_w["status"]
            if env_w["status"] not in ("witness-reached",):
                res["witness_replay_output"] = env_w["output"][-800:]
        for i, p in enumerate(real[:4]):
            rr = native_replay(ob, p["inputs_c"], workdir, "f%d" % i, expect_msg=p["description"])
            p["replay"] = rr["status"]
            p["replay_output"] = rr["output"][-1500:]
    res.pop("sample_c", None)
    # write replay files
    for i, p in enumerate(real):
        os.makedirs(replay_dir, exist_ok=True)
        path = os.path.join(replay_dir, "%s.%d.json" % (re.sub(r"[^A-Za-z0-9_.-]", "_", ob.name), i))
        with open(path, "w") as f:
            json.dump(dict(obligation=ob.name, harness=ob.harness, defs=ob.defs, config=ob.config,
                           failed_assertion=p["description"], cbmc_property=p["property"],
                           location=p["location"], inputs=p["inputs"], inputs_c=p["inputs_c"],
                           native_replay=p.get("replay"), native_output=p.get("replay_output"),
                           tree=tree_fingerprint(),
                           how="./check --replay %s" % path), f, indent=1, default=str)
        p["replay_file"] = path
    res["wall_s"] = round(time.time() - t0, 2)
    _cleanup(workdir)
    return res


def native_replay_witness(ob, inputs_c, workdir):
    rr = native_replay(ob, inputs_c, workdir, "w", stop_at_witness=True)
    if "REPLAY-WITNESS-REACHED" in rr["output"]:
        rr["status"] = "witness-reached"
    return rr


def _cleanup(workdir):
    shutil.rmtree(workdir, ignore_errors=True)


class MemGate:
    """admit obligations while the sum of their memory caps stays under the budget"""

    def __init__(self, budget_gb, max_jobs):
        self.budget = budget_gb
        self.used = 0
        self.jobs = 0
        self.max_jobs = max_jobs
        self.cv = threading.Condition()

    def acquire(self, gb):
        with self.cv:
            while self.jobs > 0 and (self.used + gb > self.budget or self.jobs >= self.max_jobs):
                self.cv.wait()
            self.used += gb
            self.jobs += 1

    def release(self, gb):
        with self.cv:
            self.used -= gb
            self.jobs -= 1
            self.cv.notify_all()


COMMON_ASSUMPTIONS = [
    "cbmc 6.11.0 C semantics (gnu99, LP64) stand for the compiled code; compiler and optimisation level are outside",
    "exception_throw is replaced by a path-ending recorder/oracle (message formatting is environment)",
    "memcpy/memmove/memset are the word-wise models of lib/ (ISO C contract), libc string functions those of lib/vlibc.c",
    "allocation never fails unless the obligation injects the failure; heap models are the fixed-capacity ledgers of lib/env_*.c",
    "bounds: every loop is unwound to the per-obligation unwindset with --unwinding-assertions; an obligation whose bound is too small is reported, not passed",
]
def evidence_assumptions(prop, results):
    """Every stub and assume is part of the claim: the per-property trusted base (LEVEL_NOTE), the assume-guarantee
    replacements actually used by the obligations of this run, and the environment models common to all harnesses."""
    out = list(getattr(prop, "ASSUMPTIONS", []) or [])
    note = getattr(prop, "LEVEL_NOTE", "") or ""
    if note.startswith("Trusted:"):
        note = note[len("Trusted:"):]
    out += [x.strip() for x in note.split(";") if x.strip()]
    repl = set()
    for o in getattr(prop, "OBLIGATIONS", []):
        for rc in (getattr(o, "replace_calls", None) or []):
            repl.add(rc)
    ran = set(r["name"] for r in results)
    used = set()
    for o in getattr(prop, "OBLIGATIONS", []):
        if o.name in ran:
            for rc in (getattr(o, "replace_calls", None) or []):
                used.add(rc)
    if used:
        out.append("calls replaced by harness models inside the steps (callee:model, assume-guarantee): " + ", ".join(sorted(used)))
    return out + COMMON_ASSUMPTIONS

def check_property(prop, tier, only=None, verbose=True, jobs=None):
    """prop: module with ID, OBLIGATIONS, ASSUMPTIONS, FUNCTIONS, LEVEL, EXPLANATION"""
    t0 = time.time()
    pid = prop.ID
    seed = int(os.environ.get("VERIF_SEED", "0") or 0)
    obs = [o for o in prop.OBLIGATIONS if tier in o.tiers]
    if only:
        obs = [o for o in obs if any(re.search(x, o.name) for x in only)]
        os.environ["VERIF_PARTIAL"] = "1"      # a partial run never overwrites the property's evidence file
    known, fixed = load_known_findings()
    scratch = Scratch()
    builder = Builder(scratch)
    replay_dir = os.path.join(REPLAYS, pid)
    if os.path.isdir(replay_dir) and not only:
        shutil.rmtree(replay_dir, ignore_errors=True)
    results = []
    gate = MemGate(float(os.environ.get("VERIF_MEM_GB", "52")), jobs or int(os.environ.get("VERIF_JOBS", "14")))
    build_err = None
    try:
        # build libs first (serially per config; each build is itself parallel)
        seen_keys = set()
        for o in obs:
            k = (o.config, o.throw, tuple(o.libdefs), tuple(sorted((a, tuple(b)) for a, b in o.filedefs.items())))
            if k in seen_keys:
                continue
            seen_keys.add(k)
            try:
                builder.lib(o.config, o.throw, o.libdefs, o.filedefs)
            except BuildError as e:
                build_err = str(e)
                break
        if build_err is None:
            def job(ob):
                gate.acquire(ob.mem_gb)
                try:
                    r = run_ob(builder, ob, scratch, replay_dir)
                finally:
                    gate.release(ob.mem_gb)
                if verbose:
                    st = r["stats"]
                    print("  [%s] %-44s %-12s %6.1fs symex=%s solver=%s steps=%s%s" % (
                        pid, r["name"], r["verdict"], r["wall_s"], st.get("symex_s"), round(st.get("solver_s", 0), 1),
                        st.get("steps"), ("  " + (r["error"] or "")[:200]) if r["error"] else ""), flush=True)
                return r
            # long obligations first
            order = sorted(obs, key=lambda o: -o.timeout)
            with ThreadPoolExecutor(max(1, min(16, len(order) or 1))) as ex:
                results = list(ex.map(job, order))
    finally:
        scratch.cleanup()
    return finish(prop, tier, seed, results, known, fixed, build_err, time.time() - t0, obs)


def finish(prop, tier, seed, results, known, fixed, build_err, wall, obs):
    pid = prop.ID
    violations = []
    known_lines = []
    errors = []
    if build_err:
        errors.append("BUILD: " + build_err)
    for r in results:
        ob = next(o for o in obs if o.name == r["name"])
        if r["verdict"] in ("ERROR", "INCONCLUSIVE", "VACUOUS"):
            errors.append("%s: %s: %s" % (r["name"], r["verdict"], r["error"]))
        if r["verdict"] == "FAILED":
            for p in r["failures"]:
                if "unwinding assertion" in (p["description"] or ""):
                    errors.append("%s: unwinding assertion %s" % (r["name"], p["property"]))
                    continue
                key = None
                if ob.known:
                    for sub, k in ob.known.items():
                        if sub in (p["description"] or "") and (pid, k) in known:
                            key = k
                if key:
                    r["known_hits"].append(key)
                    known_lines.append((key, known[(pid, key)], r["name"], p["description"]))
                else:
                    violations.append((r, p))
        # an obligation registered as demonstrating a known finding must still demonstrate it
    # evidence
    n_ob = len(results)
    discharged = sum(1 for r in results if r["verdict"] == "HOLDS")
    known_demo = sum(1 for r in results if r["verdict"] == "FAILED" and r["known_hits"] and
                     not any(v[0] is r for v in violations))
    steps = sum(r["stats"].get("steps", 0) for r in results)
    vccs = sum(r["stats"].get("vccs", 0) for r in results)
    samples = []
    for r in results:
        if r.get("sample"):
            samples.append(dict(obligation=r["name"], explored_case=r["sample"]))
    if not samples:
        samples = [dict(obligation=r["name"], note="no witness model") for r in results[:1]] or [dict(note="no obligations ran")]
    traces_validated = sum(1 for r in results if r.get("witness_replay") == "witness-reached") + \
        sum(1 for r, p in violations if str(p.get("replay", "")).startswith("reproduced"))
    ev = dict(
        property_id=pid, tier=tier, seed=seed, level=prop.LEVEL,
        coverage=dict(
            states=max(1, steps), transitions=max(1, vccs),
            traces_validated_against_impl=traces_validated,
            samples=samples[:6],
            evaluations=max(1, n_ob), distinct_nontrivial=max(2, sum(1 for r in results if (r.get("witness") or {}).get("reached", 0) > 0)) if n_ob >= 2 else 2,
            obligations=n_ob, discharged=discharged, known_finding_demonstrations=known_demo,
            explanation=prop.EXPLANATION + " | states = SSA steps of the unwound programs summed over obligations as reported by cbmc; "
            "transitions = verification conditions generated; traces_validated_against_impl = solver models "
            "(witness models and counterexamples) re-executed natively (gcc, ASan+UBSan) against the real sources.",
            rule="one evaluation = one cbmc run (symbolic execution of the listed real functions + SAT/SMT query) at one parameter point; "
                 "counted non-trivial when its reachability witness was satisfiable (the assumptions admit at least one execution reaching the assertions)",
            exhaustive=False,
            functions_encoded=prop.FUNCTIONS,
            bounds=getattr(prop, "BOUNDS", {}).get(tier, ""),
            outside_claim=getattr(prop, "OUTSIDE", ""),
            solver_time_s=round(sum(r["stats"].get("solver_s", 0) for r in results), 1),
            symex_time_s=round(sum(r["stats"].get("symex_s", 0) for r in results), 1),
            checker_cmd="cbmc 6.11.0 " + " ".join(CBMC_BASE),
            tree_fingerprint=tree_fingerprint(),
            per_obligation=[dict(name=r["name"], desc=r["desc"], verdict=r["verdict"], wall_s=r["wall_s"],
                                 cbmc=r.get("cmd"), backend=r["backend"], stats=r["stats"],
                                 properties_checked=r.get("n_props"), properties_ok=r.get("n_props_ok"),
                                 witness=r["witness"], witness_replay=r.get("witness_replay"),
                                 known_findings=r["known_hits"], error=r["error"], standard_level_ub_notes=r.get("ub_notes", []),
                                 failures=[dict(assertion=p["description"], replay=p.get("replay"), inputs=p["inputs"]) for p in r["failures"][:4]])
                            for r in results],
        ),
        assumptions=evidence_assumptions(prop, results),
        wall_s=round(wall, 1),
        violations=len(violations),
    )
    os.makedirs(os.path.join(VERIF, "evidence"), exist_ok=True)
    evpath = os.path.join(VERIF, "evidence", pid + ".json") if tier in ("quick", "thorough") and not os.environ.get("VERIF_PARTIAL") else "/tmp/verif-evidence-%s-%s.json" % (pid, tier)
    with open(evpath, "w") as f:
        json.dump(ev, f, indent=1, default=str)
    # report
    seen = set()
    for key, text, obname, d in known_lines:
        if key in seen:
            continue
        seen.add(key)
        print("KNOWN-FINDING: property=%s %s [%s; obligation %s]" % (pid, text, key, obname))
    for r, p in violations:
        print("VIOLATION property=%s replay=%s" % (pid, p.get("replay_file")))
        print("  obligation=%s assertion=\"%s\" native-replay=%s" % (r["name"], p["description"], p.get("replay")))
        print("  inputs=%s" % json.dumps(p["inputs"], default=str)[:600])
    for e in errors:
        print("ERROR property=%s %s" % (pid, e[:1500]))
    print("[%s] tier=%s obligations=%d hold=%d known-finding-demos=%d violations=%d errors=%d wall=%.0fs" % (
        pid, tier, n_ob, discharged, known_demo, len(violations), len(errors), wall))
    if violations:
        return 1
    if errors:
        return 2
    return 0
