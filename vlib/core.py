"""Driver internals: build /repo's current tree with goto-cc, run cbmc obligations,
parse verdicts, replay counterexamples natively, write evidence.

Everything is rebuilt from /repo's working tree on every run, in a scratch directory
outside /repo and /verif that is removed on exit.
"""
import json, os, re, shutil, subprocess, sys, tempfile, time, hashlib, struct, resource
from concurrent.futures import ThreadPoolExecutor, as_completed

VERIF = os.path.dirname(os.path.dirname(os.path.abspath(__file__)))
REPO = os.environ.get("VERIF_REPO", "/repo")
GUARD = "CELLO_VERIF"
BASE_CFLAGS = ["-I", os.path.join(REPO, "include"), "-I", os.path.join(REPO, "src"), "-I", os.path.join(VERIF, "lib"),
               "-std=gnu99", "-DCELLO_NSTRACE"]
CONFIGS = {
    "default": [],
    "ndebug": ["-DCELLO_NDEBUG"],
    "nocache": ["-DCELLO_CACHE=0"],
    "ngc": ["-DCELLO_NGC"],
    "ndebug_nocache": ["-DCELLO_NDEBUG", "-DCELLO_CACHE=0"],
    "ndebug_ngc": ["-DCELLO_NDEBUG", "-DCELLO_NGC"],
}
CBMC_BASE = [             "--drop-unused-functions", "--unwinding-assertions", "--no-standard-checks",
             "--json-ui", "--trace", "--verbosity", "8"]
CHECK_FLAGS = {
    "bounds": "--bounds-check", "pointer": "--pointer-check", "div0": "--div-by-zero-check",
    "overflow": "--signed-overflow-check", "shift": "--undefined-shift-check",
    "conversion": "--conversion-check", "ptr-overflow": "--pointer-overflow-check",
    "prim": "--pointer-primitive-check", "float-overflow": "--float-overflow-check",
}


class Ob:
    """One obligation = one cbmc run on one harness at one parameter point."""

    def __init__(self, name, harness, defs=(), config="default", replace=(), throw="stub",
                 entry="harness", unwind=24, unwindset=(), checks=(), extra=(),
                 tiers=("quick", "thorough"), timeout=900, mem_gb=6, known=None,
                 desc="", link="all", libdefs=(), native=True, fp_restrict=(), backend=None,
                 nowitness=False, srcs_extra=(), filedefs=None, gen=None, object_bits=12, replace_calls=(), fs_size=200, native_link=None):
        self.name = name
        self.harness = harness          # path relative to /verif/harness
        self.defs = list(defs)          # -D for the harness TU
        self.config = config            # library build configuration
        self.replace = list(replace)    # src/*.c basenames NOT linked (harness #includes them)
        self.throw = throw              # 'stub' (recorder) or 'real' (Exception.c is the unit)
        self.entry = entry
        self.unwind = unwind
        self.unwindset = list(unwindset)
        self.checks = list(checks)
        self.extra = list(extra)
        self.tiers = tiers
        self.timeout = timeout
        self.mem_gb = mem_gb
        self.known = known              # dict: {assertion-description-substring: finding-id}
        self.desc = desc
        self.link = link                # 'all' | list of src basenames to link
        self.libdefs = list(libdefs)    # extra -D for the library TUs of this obligation
        self.native = native            # can be replayed natively
        self.fp_restrict = list(fp_restrict)
        self.backend = backend          # None (minisat) | 'cadical' | 'kissat' | 'cvc5' | 'z3'
        self.nowitness = nowitness
        self.srcs_extra = list(srcs_extra)  # extra /verif/lib/*.c to link
        self.object_bits = object_bits
        self.native_link = native_link  # what the native replay links (default: same as link)
        self.fs_size = fs_size          # --max-field-sensitivity-array-size
        self.replace_calls = list(replace_calls)   # goto-instrument --replace-calls f:g (assume-guarantee split: callee checked by its own obligation)
        self.gen = gen                  # generator(repo, workdir) -> dict; writes headers into workdir (on the include path)
        self.filedefs = dict(filedefs or {})  # {'String.c': ['-Drealloc=vcap_realloc', ...]} extra flags for single library TUs


class Scratch:
    def __init__(self):
        base = os.environ.get("VERIF_SCRATCH") or os.environ.get("TMPDIR") or "/tmp"
        self.dir = tempfile.mkdtemp(prefix="cello-verif-", dir=base)

    def cleanup(self):
        shutil.rmtree(self.dir, ignore_errors=True)


def run(cmd, cwd=None, timeout=None, mem_gb=None, env=None, stdout=None):
    def limits():
        os.setsid()
        if mem_gb:
            b = int(mem_gb * (1 << 30))
            resource.setrlimit(resource.RLIMIT_AS, (b, b))
    t0 = time.time()
    p = subprocess.Popen(cmd, cwd=cwd, stdout=stdout or subprocess.PIPE, stderr=subprocess.PIPE,
                         preexec_fn=limits, env=env)
    try:
        out, err = p.communicate(timeout=timeout)
        to = False
    except subprocess.TimeoutExpired:
        try:
            os.killpg(p.pid, 9)
        except Exception:
            pass
        out, err = p.communicate()
        to = True
    ru = resource.getrusage(resource.RUSAGE_CHILDREN)
    return dict(rc=p.returncode, out=(out or b"").decode("utf8", "replace"),
                err=(err or b"").decode("utf8", "replace"), timeout=to, wall=time.time() - t0)


def src_files():
    d = os.path.join(REPO, "src")
    return sorted(f for f in os.listdir(d) if f.endswith(".c"))


def tree_fingerprint():
    h = hashlib.sha256()
    for f in src_files():
        h.update(open(os.path.join(REPO, "src", f), "rb").read())
    h.update(open(os.path.join(REPO, "include", "Cello.h"), "rb").read())
    return h.hexdigest()[:16]


class Builder:
    """goto-cc builds of the library per (config, throw-mode, libdefs), cached per run."""

    def __init__(self, scratch):
        self.scratch = scratch
        self.cache = {}

    def lib(self, config, throw, libdefs=(), filedefs=None):
        filedefs = filedefs or {}
        fkey = tuple(sorted((k, tuple(v)) for k, v in filedefs.items()))
        key = (config, throw, tuple(libdefs), fkey)
        if key in self.cache:
            return self.cache[key]
        d = os.path.join(self.scratch.dir, "lib-%s-%s-%s" % (config, throw, hashlib.md5(repr((libdefs, fkey)).encode()).hexdigest()[:6]))
        os.makedirs(d, exist_ok=True)
        objs = {}
        jobs = []
        for f in src_files():
            flags = BASE_CFLAGS + CONFIGS[config] + list(libdefs) + list(filedefs.get(f, []))
            if throw == "stub" and f == "Exception.c":
                flags = flags + ["-Dexception_throw=cello_real_exception_throw"]
            if throw == "real" and f != "Exception.c":
                flags = flags + ["-Dexception_throw=verif_lib_throw"]
            o = os.path.join(d, f[:-2] + ".o")
            objs[f] = o
            jobs.append((["goto-cc"] + flags + ["-c", os.path.join(REPO, "src", f), "-o", o], f))
        with ThreadPoolExecutor(16) as ex:
            for r, f in ex.map(lambda j: (run(j[0]), j[1]), jobs):
                if r["rc"] != 0:
                    raise BuildError("goto-cc failed on src/%s (%s):\n%s" % (f, config, r["err"][-3000:]))
        # environment objects
        for name in ["vlibc.c", "env_throw.c"]:
            o = os.path.join(d, name[:-2] + ".o")
            r = run(["goto-cc"] + BASE_CFLAGS + CONFIGS[config] + ["-c", os.path.join(VERIF, "lib", name), "-o", o])
            if r["rc"] != 0:
                raise BuildError("goto-cc failed on lib/%s:\n%s" % (name, r["err"][-3000:]))
            objs["@" + name] = o
        self.cache[key] = objs
        return objs


class BuildError(Exception):
    pass


def json_value_to_c(v):
    """cbmc JSON trace value -> C initializer text"""
    n = v.get("name")
    if n == "struct":
        parts = []
        for m in v["members"]:
            if m["name"].startswith("$pad"):
                continue
            parts.append(".%s = %s" % (m["name"], json_value_to_c(m["value"])))
        return "{ " + ", ".join(parts) + " }"
    if n == "array":
        return "{ " + ", ".join("[%d] = %s" % (e["index"], json_value_to_c(e["value"])) for e in v["elements"]) + " }"
    if n == "integer":
        b = v.get("binary")
        w = v.get("width", 64)
        if b is not None:
            u = int(b, 2)
            t = v.get("type", "")
            if "unsigned" in t or t in ("size_t", "uint64_t", "uint32_t", "uint8_t", "uint16_t", "uintptr_t", "_Bool"):
                return "%dU%s" % (u, "LL" if w > 32 else "")
            if u >= 1 << (w - 1):
                u -= 1 << w
            if w > 32:
                return "(%dLL%s)" % (u + 1, "-1") if u == -(1 << 63) else "%dLL" % u
            return "(%d)" % u
        return str(v.get("data", "0")).rstrip("lLuU")
    if n == "boolean":
        return "1" if v.get("data") in (True, "true", "TRUE", "1") else "0"
    if n == "float":
        b = v.get("binary")
        w = v.get("width", 64)
        if b is not None and w == 64:
            d = struct.unpack(">d", int(b, 2).to_bytes(8, "big"))[0]
            if d != d:
                return "(0.0/0.0)"
            if d in (float("inf"), float("-inf")):
                return "(1.0/0.0)" if d > 0 else "(-1.0/0.0)"
            return d.hex()
        if b is not None and w == 32:
            d = struct.unpack(">f", int(b, 2).to_bytes(4, "big"))[0]
            return float(d).hex() + "f"
        return str(v.get("data"))
    if n == "pointer":
        return "0"
    if n == "union":
        return "{0}"
    if n == "unknown":
        return "0"
    return "0"


def json_value_to_py(v):
    n = v.get("name")
    if n == "struct":
        return {m["name"]: json_value_to_py(m["value"]) for m in v["members"] if not m["name"].startswith("$pad")}
    if n == "array":
        return [json_value_to_py(e["value"]) for e in v["elements"]]
    if n == "integer":
        b = v.get("binary")
        if b is None:
            return v.get("data")
        u = int(b, 2)
        w = v.get("width", 64)
        t = v.get("type", "")
        if not ("unsigned" in t or t in ("size_t", "uint64_t", "uint32_t", "uint8_t", "uint16_t", "_Bool")) and u >= 1 << (w - 1):
            u -= 1 << w
        return u
    if n == "float":
        b = v.get("binary")
        if b is not None and v.get("width") == 64:
            return struct.unpack(">d", int(b, 2).to_bytes(8, "big"))[0]
        return v.get("data")
    if n == "boolean":
        return v.get("data")
    return v.get("data")


def parse_cbmc_json(text):
    """returns dict(status, props=[{property,status,description,inputs}], stats)"""
    res = dict(status=None, props=[], stats={}, messages=[], error=None)
    try:
        doc = json.loads(text)
    except Exception as e:
        # truncated output (timeout/oom): try to salvage messages
        res["error"] = "unparseable cbmc output (%s)" % e
        doc = []
        for m in re.finditer(r'"messageText":\s*"((?:[^"\\]|\\.)*)"', text):
            doc.append({"messageText": m.group(1)})
    for e in doc:
        if "messageText" in e:
            t = e["messageText"]
            res["messages"].append(t)
            m = re.match(r"size of program expression: (\d+) steps", t)
            if m:
                res["stats"]["steps"] = int(m.group(1))
            m = re.match(r"Generated (\d+) VCC\(s\), (\d+) remaining after simplification", t)
            if m:
                res["stats"]["vccs"] = int(m.group(1))
                res["stats"]["vccs_remaining"] = int(m.group(2))
            m = re.match(r"(\d+) variables, (\d+) clauses", t)
            if m:
                res["stats"]["sat_vars"] = max(res["stats"].get("sat_vars", 0), int(m.group(1)))
                res["stats"]["sat_clauses"] = max(res["stats"].get("sat_clauses", 0), int(m.group(2)))
            m = re.match(r"Runtime Symex: ([\d.e+-]+)s", t)
            if m:
                res["stats"]["symex_s"] = float(m.group(1))
            m = re.match(r"Runtime Solver: ([\d.e+-]+)s", t)
            if m:
                res["stats"]["solver_s"] = res["stats"].get("solver_s", 0.0) + float(m.group(1))
            m = re.match(r"Runtime decision procedure: ([\d.e+-]+)s", t)
            if m:
                res["stats"]["decision_s"] = res["stats"].get("decision_s", 0.0) + float(m.group(1))
            if e.get("messageType") == "ERROR":
                res["error"] = (res["error"] or "") + t + "\n"
        elif "result" in e:
            for r in e["result"]:
                p = dict(property=r.get("property"), status=r.get("status"),
                         description=r.get("description", ""),
                         location=(r.get("sourceLocation") or {}), inputs=None, inputs_c=None)
                for st in r.get("trace", []) or []:
                    if st.get("stepType") == "assignment" and st.get("lhs") == "IN" and "value" in st:
                        p["inputs"] = json_value_to_py(st["value"])
                        p["inputs_c"] = json_value_to_c(st["value"])
                res["props"].append(p)
        elif "cProverStatus" in e:
            res["status"] = e["cProverStatus"]
    return res
