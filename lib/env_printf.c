/* env_printf.c -- model of the small part of the C formatting library that String_Show / String_Look
 * and Int/Float show/look reach through String_Format_To / String_Format_From:
 *   output: literal text, %%, %c (int argument), %li / %ld (long argument), %i / %d (int argument: same text as the sign-extended long), %f (double argument)
 *   input : literal text (must match), %c (one character, no white-space skipping), %n,
 *           %li / %ld (long*), %i / %d (int*: four bytes stored), %lf (double*), %f (float*)
 * The digits libc would produce for a number are FFI; they are replaced by an abstract injective text
 * encoding of fixed width (a tag character followed by the 16 nibbles of the value's image, as letters),
 * which satisfies by construction the contract "the reader returns the value the writer was given and
 * consumes exactly the characters it wrote".  What stays decided is everything Cello does around it: which
 * C value and which width it hands to the writer, which pointer and which width it hands to the reader
 * (a %f reader stores four bytes through a float*), and the position bookkeeping through %n.
 * Any other directive reaching the model is an assertion failure (= outside what this model claims). */
#include <stdarg.h>
#include <stddef.h>
#include "verif.h"
#define VP_NUMW 17
#define VP_PUT(c) do { if (s != NULL && (!limited || out + 1 < n)) s[out] = (c); out++; } while (0)
static int vp_emit(char* s, size_t n, int limited, const char* fmt, va_list ap) {
  size_t out = 0;
  for (size_t i = 0; fmt[i] != 0; i++) {
    char ch = fmt[i];
    if (ch == '%') {
      i++;
      int longs = 0; while (fmt[i] == 'l') { longs++; i++; }
      if (fmt[i] == 'i' || fmt[i] == 'd' || fmt[i] == 'f') {
        unsigned long long img = 0; char tag;
        if (fmt[i] == 'f') { tag = 'F'; if (s != NULL) { union { double d; unsigned long long u; } cv; cv.d = va_arg(ap, double); img = cv.u; } }
        else { V_ASSERT(longs <= 1, "MODEL-LIMIT: formatting model: integer directives are modelled for %i / %d / %li / %ld only"); tag = 'I';
               if (s != NULL) { long v = (longs == 1) ? va_arg(ap, long) : (long)va_arg(ap, int); img = (unsigned long long)v; } }
        VP_PUT(tag);
        for (int k = 0; k < 16; k++) VP_PUT((char)('a' + ((img >> (4 * k)) & 15)));
        continue;
      }
      V_ASSERT(longs == 0, "MODEL-LIMIT: formatting model: length modifier on an unmodelled directive");
      if (fmt[i] == '%') ch = '%';
      else if (fmt[i] == 'c') ch = (s != NULL) ? (char)va_arg(ap, int) : 'x';   /* sizing pass: every directive is one character, the argument is not consumed */
      else { V_ASSERT(0, "MODEL-LIMIT: formatting model: only literal text, %% and %c are modelled"); return -1; }
    }
    if (s != NULL && (!limited || out + 1 < n)) s[out] = ch;
    out++;
  }
  if (s != NULL && (!limited || n > 0)) s[(!limited || out < n) ? out : n - 1] = 0;
  return (int)out;
}
int vsnprintf(char* s, size_t n, const char* fmt, va_list ap) { return vp_emit(s, n, 1, fmt, ap); }
int vsprintf(char* s, const char* fmt, va_list ap) { return vp_emit(s, 0, 0, fmt, ap); }
int vsscanf(const char* str, const char* fmt, va_list ap) {
  size_t pos = 0; int assigned = 0; int eof_hit = 0;
  for (size_t i = 0; fmt[i] != 0; i++) {
    if (fmt[i] == '%') {
      i++;
      int longs = 0; while (fmt[i] == 'l') { longs++; i++; }
      if (fmt[i] == 'i' || fmt[i] == 'd' || fmt[i] == 'f') {
        char tag = (fmt[i] == 'f') ? 'F' : 'I';
        if (str[pos] == 0) { eof_hit = 1; break; }
        if (str[pos] != tag) break;
        unsigned long long img = 0; int ok = 1;
        for (int k = 0; k < 16; k++) { char c = str[pos + 1 + k]; if (c < 'a' || c > 'p') { ok = 0; break; } img |= ((unsigned long long)(c - 'a')) << (4 * k); }
        if (!ok) break;
        pos += VP_NUMW;
        if (fmt[i] == 'f') { union { double d; unsigned long long u; } cv; cv.u = img; double d = cv.d;
          if (longs == 1) { double* dst = va_arg(ap, double*); *dst = d; }
          else { V_ASSERT(longs == 0, "MODEL-LIMIT: scanning model: %f / %lf only"); float* dst = va_arg(ap, float*); *dst = (float)d; } }
        else { V_ASSERT(longs <= 1, "MODEL-LIMIT: scanning model: integer directives are modelled for %i / %d / %li / %ld only");
               if (longs == 1) { long* dst = va_arg(ap, long*); *dst = (long)img; } else { int* dst = va_arg(ap, int*); *dst = (int)img; } }
        assigned++;
        continue;
      }
      V_ASSERT(longs == 0, "MODEL-LIMIT: scanning model: length modifier on an unmodelled directive");
      if (fmt[i] == 'c') { char* dst = va_arg(ap, char*); if (str[pos] == 0) { eof_hit = 1; break; } *dst = str[pos]; pos++; assigned++; }
      else if (fmt[i] == 'n') { int* dst = va_arg(ap, int*); *dst = (int)pos; }
      else if (fmt[i] == '%') { if (str[pos] != '%') break; pos++; }
      else { V_ASSERT(0, "MODEL-LIMIT: scanning model: only literal text, %c and %n are modelled"); return -1; }
    } else {
      if (str[pos] == 0) { eof_hit = 1; break; }
      if (str[pos] != fmt[i]) break;
      pos++;
    }
  }
  return (assigned == 0 && eof_hit) ? -1 : assigned;
}
/* glibc's <stdio.h> redirects vsscanf to __isoc99_vsscanf */
#ifndef V_NATIVE
int __isoc99_vsscanf(const char* str, const char* fmt, va_list ap) { return vsscanf(str, fmt, ap); }
#endif
