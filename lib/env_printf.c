/* env_printf.c -- model of the small part of the C formatting library that String_Show / String_Look
 * and Int/Float show/look reach through String_Format_To / String_Format_From:
 *   output: literal text, %%, %c (int argument)
 *   input : literal text (must match), %c (one character, no white-space skipping), %n
 * Any other directive reaching the model is an assertion failure (= outside what this model claims). */
#include <stdarg.h>
#include <stddef.h>
#include "verif.h"
static int vp_emit(char* s, size_t n, int limited, const char* fmt, va_list ap) {
  size_t out = 0;
  for (size_t i = 0; fmt[i] != 0; i++) {
    char ch = fmt[i];
    if (ch == '%') {
      i++;
      if (fmt[i] == '%') ch = '%';
      else if (fmt[i] == 'c') ch = (char)va_arg(ap, int);
      else { V_ASSERT(0, "formatting model: only literal text, %% and %c are modelled"); return -1; }
    }
    if (s != NULL && (!limited || out + 1 < n)) s[out] = ch;
    out++;
  }
  if (s != NULL && (!limited || n > 0)) s[(!limited || out < n) ? out : n - 1] = 0;
  return (int)out;
}
int vsnprintf(char* s, size_t n, const char* fmt, va_list ap) { return vp_emit(s, n, 1, fmt, ap); }
int vsprintf(char* s, const char* fmt, va_list ap) { return vp_emit(s, 0, 0, fmt, ap); }
int vsscanf(const char* str, const char* fmt, va_list ap) {
  size_t pos = 0; int assigned = 0; int eof_hit = 0;
  for (size_t i = 0; fmt[i] != 0; i++) {
    if (fmt[i] == '%') {
      i++;
      if (fmt[i] == 'c') { char* dst = va_arg(ap, char*); if (str[pos] == 0) { eof_hit = 1; break; } *dst = str[pos]; pos++; assigned++; }
      else if (fmt[i] == 'n') { int* dst = va_arg(ap, int*); *dst = (int)pos; }
      else if (fmt[i] == '%') { if (str[pos] != '%') break; pos++; }
      else { V_ASSERT(0, "scanning model: only literal text, %c and %n are modelled"); return -1; }
    } else {
      if (str[pos] == 0) { eof_hit = 1; break; }
      if (str[pos] != fmt[i]) break;
      pos++;
    }
  }
  return (assigned == 0 && eof_hit) ? -1 : assigned;
}
