#include <stddef.h>
#include <stdint.h>
void *memcpy(void *dst, const void *src, size_t n) {
  if (n % 8 == 0 && __CPROVER_POINTER_OFFSET(dst) % 8 == 0 && __CPROVER_POINTER_OFFSET(src) % 8 == 0) {
    for (size_t i = 0; i < n / 8; i++) { ((void**)dst)[i] = ((void* const*)src)[i]; ((uint64_t*)dst)[i] = ((const uint64_t*)src)[i]; }
  } else {
    for (size_t i = 0; i < n; i++) ((char*)dst)[i] = ((const char*)src)[i];
  }
  return dst;
}
void *memset(void *s, int c, size_t n) {
  if (n % 8 == 0 && __CPROVER_POINTER_OFFSET(s) % 8 == 0) {
    uint64_t b = (unsigned char)c; uint64_t w = b * 0x0101010101010101ULL;
    for (size_t i = 0; i < n / 8; i++) ((uint64_t*)s)[i] = w;
  } else {
    for (size_t i = 0; i < n; i++) ((unsigned char*)s)[i] = (unsigned char)c;
  }
  return s;
}
void *memmove(void *dst, const void *src, size_t n) {
  int fwd = !__CPROVER_same_object(dst, src) || __CPROVER_POINTER_OFFSET(dst) <= __CPROVER_POINTER_OFFSET(src);
  if (n % 8 == 0 && __CPROVER_POINTER_OFFSET(dst) % 8 == 0 && __CPROVER_POINTER_OFFSET(src) % 8 == 0) {
    size_t w = n / 8;
    if (fwd) { for (size_t i = 0; i < w; i++) { ((void**)dst)[i] = ((void* const*)src)[i]; ((uint64_t*)dst)[i] = ((const uint64_t*)src)[i]; } }
    else { for (size_t i = w; i > 0; i--) { ((void**)dst)[i-1] = ((void* const*)src)[i-1]; ((uint64_t*)dst)[i-1] = ((const uint64_t*)src)[i-1]; } }
  } else {
    if (fwd) { for (size_t i = 0; i < n; i++) ((char*)dst)[i] = ((const char*)src)[i]; }
    else { for (size_t i = n; i > 0; i--) ((char*)dst)[i-1] = ((const char*)src)[i-1]; }
  }
  return dst;
}

/* C string functions, written from the ISO C definitions (unsigned char comparison);
 * cbmc's own strstr is nondeterministic and its strcmp/strlen models use
 * __CPROVER_is_zero_string abstractions we do not enable. */
size_t strlen(const char *s) { size_t n = 0; while (s[n] != 0) n++; return n; }
int strcmp(const char *a, const char *b) {
  size_t i = 0;
  while (1) {
    unsigned char x = (unsigned char)a[i], y = (unsigned char)b[i];
    if (x != y) return x < y ? -1 : 1;
    if (x == 0) return 0;
    i++;
  }
}
int strncmp(const char *a, const char *b, size_t n) {
  for (size_t i = 0; i < n; i++) {
    unsigned char x = (unsigned char)a[i], y = (unsigned char)b[i];
    if (x != y) return x < y ? -1 : 1;
    if (x == 0) return 0;
  }
  return 0;
}
int memcmp(const void *a, const void *b, size_t n) {
  for (size_t i = 0; i < n; i++) {
    unsigned char x = ((const unsigned char*)a)[i], y = ((const unsigned char*)b)[i];
    if (x != y) return x < y ? -1 : 1;
  }
  return 0;
}
char *strcpy(char *d, const char *s) { size_t i = 0; while ((d[i] = s[i]) != 0) i++; return d; }
char *strcat(char *d, const char *s) { size_t n = 0; while (d[n] != 0) n++; size_t i = 0; while ((d[n + i] = s[i]) != 0) i++; return d; }
char *strstr(const char *h, const char *n) {
  for (size_t i = 0; ; i++) {
    size_t j = 0;
    while (n[j] != 0 && h[i + j] == n[j]) j++;
    if (n[j] == 0) return (char*)h + i;
    if (h[i + j] == 0) return (char*)0;
  }
}
char *strchr(const char *s, int c) {
  for (size_t i = 0; ; i++) {
    if (s[i] == (char)c) return (char*)s + i;
    if (s[i] == 0) return (char*)0;
  }
}
