/* env_vcap2.c -- fixed-capacity, byte-granular, single-object model of malloc/realloc/free for container element
 * storage whose size depends on symbolic lengths (Array / Tuple backing stores).
 * cbmc's malloc(symbolic size) turns every access into an array-theory query over a symbolic-size
 * object, and several candidate objects per pointer multiply that; here all blocks are rows of ONE
 * static array VBLK[VCAP_BLOCKS][VCAP] of 8-byte words:
 *   - the requested byte size of each block is ghost state;
 *   - words at or beyond it hold remembered nondeterministic slack: vcap_check() detects writes beyond
 *     the requested size, reads beyond it return arbitrary values (so they show whenever they matter);
 *   - realloc keeps the block in place (a legal libc behaviour) unless built with -DVCAP_MOVE, where it
 *     always moves to a fresh row and poisons the old one (stale-pointer use then reads poison);
 *   - free/realloc of a pointer that is not a live block start is an assertion failure.
 * Same API as env_vcap.c (vcap_realloc/vcap_calloc/vcap_malloc/vcap_free/vcap_size/vcap_check/vcap_live) but all blocks live in ONE
 * static array and realloc works in place: no growth in the number of candidate objects per pointer. */
#include <stdlib.h>
#include <stdint.h>
#include "verif.h"
#ifndef VCAP
#define VCAP 24               /* capacity of one block in bytes */
#endif
#ifndef VCAP_BLOCKS
#define VCAP_BLOCKS 4
#endif
static unsigned char VBLK[VCAP_BLOCKS][VCAP];
size_t vcap_req[VCAP_BLOCKS];
static int vcap_state[VCAP_BLOCKS];            /* 0 unused, 1 live, 2 freed */
static unsigned char vcap_slack[VCAP_BLOCKS][VCAP];
static int vcap_n = 0;
#ifndef V_NATIVE
unsigned char nondet_uchar(void);
#else
static unsigned char nondet_uchar(void) { return 0xA5; }
#endif
static int vcap_find(const void* p) {
  for (int i = 0; i < VCAP_BLOCKS; i++) if (p == (const void*)&VBLK[i][0]) return i;
  return -1;
}
static void* vcap_new(size_t n, int zero) {
  V_ASSERT(n <= VCAP, "harness bound: requested block fits the fixed capacity VCAP");
  V_ASSERT(vcap_n < VCAP_BLOCKS, "harness bound: enough blocks");
  int b = vcap_n++;
  vcap_req[b] = n; vcap_state[b] = 1;
  for (size_t i = 0; i < VCAP; i++) {
    unsigned char c = nondet_uchar();
    vcap_slack[b][i] = c;
    VBLK[b][i] = (zero && i < n) ? 0 : c;
  }
  return &VBLK[b][0];
}
void* vcap_calloc(size_t a, size_t b) { return vcap_new(a * b, 1); }
void* vcap_malloc(size_t n) { return vcap_new(n, 0); }
void vcap_free(void* p) {
  if (p == NULL) return;
  int b = vcap_find(p);
  V_ASSERT(b >= 0 && b < vcap_n && vcap_state[b] == 1, "free/realloc only of a live heap block, exactly once");
  if (b >= 0) vcap_state[b] = 2;
}
void* vcap_realloc(void* p, size_t n) {
  if (p == NULL) return vcap_new(n, 0);
  int b = vcap_find(p);
  V_ASSERT(b >= 0 && b < vcap_n && vcap_state[b] == 1, "free/realloc only of a live heap block, exactly once");
  if (b < 0) return NULL;
  V_ASSERT(n <= VCAP, "harness bound: requested block fits the fixed capacity VCAP");
#ifdef VCAP_MOVE
  unsigned char* q = vcap_new(n, 0);
  for (size_t i = 0; i < VCAP; i++) { if (i < n && i < vcap_req[b]) q[i] = VBLK[b][i]; VBLK[b][i] = 0xDD; }
  vcap_state[b] = 2;
  return q;
#else
  /* in place: what lies beyond the new size becomes slack (remember it as it is now) */
  for (size_t i = 0; i < VCAP; i++) if (i >= n) vcap_slack[b][i] = VBLK[b][i];
  vcap_req[b] = n;
  return p;
#endif
}
size_t vcap_size(const void* p) { if (p == NULL) return 0; int b = vcap_find(p); V_ASSERT(b >= 0 && vcap_state[b] == 1, "pointer is a live heap block"); return b >= 0 ? vcap_req[b] : 0; }
void vcap_check(void) {
  for (int b = 0; b < VCAP_BLOCKS; b++)
    if (b < vcap_n && vcap_state[b] == 1)
      for (size_t i = 0; i < VCAP; i++)
        if (i >= vcap_req[b]) V_ASSERT(VBLK[b][i] == vcap_slack[b][i], "no write beyond the size requested from malloc/realloc (buffer overflow)");
}
int vcap_live(void) { int n = 0; for (int b = 0; b < VCAP_BLOCKS; b++) if (b < vcap_n && vcap_state[b] == 1) n++; return n; }
