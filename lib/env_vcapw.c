/* env_vcapw.c -- fixed-capacity, word-granular model of malloc/realloc/free for container element
 * storage whose size depends on symbolic lengths (Array / Tuple backing stores).
 * cbmc's malloc(symbolic size) turns every access into an array-theory query over a symbolic-size
 * object, and several candidate objects per pointer multiply that; here all blocks are rows of ONE
 * static array VBLK[VCW_BLOCKS][VCW] of 8-byte words:
 *   - the requested byte size of each block is ghost state;
 *   - words at or beyond it hold remembered nondeterministic slack: vcw_check() detects writes beyond
 *     the requested size, reads beyond it return arbitrary values (so they show whenever they matter);
 *   - realloc keeps the block in place (a legal libc behaviour) unless built with -DVCW_MOVE, where it
 *     always moves to a fresh row and poisons the old one (stale-pointer use then reads poison);
 *   - free/realloc of a pointer that is not a live block start is an assertion failure.
 * Unit is compiled with -Dmalloc=vcw_malloc -Drealloc=vcw_realloc -Dfree=vcw_free (-Dcalloc=vcw_calloc). */
#include <stdlib.h>
#include <stdint.h>
#include "verif.h"
#ifndef VCW
#define VCW 48               /* capacity of one block in 8-byte words */
#endif
#ifndef VCW_BLOCKS
#define VCW_BLOCKS 4
#endif
static uint64_t VBLK[VCW_BLOCKS][VCW];
size_t vcw_req[VCW_BLOCKS];
static int vcw_state[VCW_BLOCKS];            /* 0 unused, 1 live, 2 freed */
static uint64_t vcw_slack[VCW_BLOCKS][VCW];
static int vcw_n = 0;
#ifndef V_NATIVE
uint64_t nondet_u64(void);
#else
static uint64_t nondet_u64(void) { return 0xA5A5A5A5A5A5A5A5ULL; }
#endif
static int vcw_find(const void* p) {
  for (int i = 0; i < VCW_BLOCKS; i++) if (p == (const void*)&VBLK[i][0]) return i;
  return -1;
}
static void* vcw_new(size_t n, int zero) {
  V_ASSERT(n <= VCW * 8, "harness bound: requested block fits the fixed capacity VCW");
  V_ASSERT(vcw_n < VCW_BLOCKS, "harness bound: enough blocks");
  int b = vcw_n++;
  vcw_req[b] = n; vcw_state[b] = 1;
  for (size_t i = 0; i < VCW; i++) {
    uint64_t c = nondet_u64();
    vcw_slack[b][i] = c;
    VBLK[b][i] = (zero && i * 8 < n) ? 0 : c;
  }
  return &VBLK[b][0];
}
void* vcw_calloc(size_t a, size_t b) { return vcw_new(a * b, 1); }
void* vcw_malloc(size_t n) { return vcw_new(n, 0); }
void vcw_free(void* p) {
  if (p == NULL) return;
  int b = vcw_find(p);
  V_ASSERT(b >= 0 && b < vcw_n && vcw_state[b] == 1, "free/realloc only of a live heap block, exactly once");
  if (b >= 0) vcw_state[b] = 2;
}
void* vcw_realloc(void* p, size_t n) {
  if (p == NULL) return vcw_new(n, 0);
  int b = vcw_find(p);
  V_ASSERT(b >= 0 && b < vcw_n && vcw_state[b] == 1, "free/realloc only of a live heap block, exactly once");
  if (b < 0) return NULL;
  V_ASSERT(n <= VCW * 8, "harness bound: requested block fits the fixed capacity VCW");
#ifdef VCW_MOVE
  uint64_t* q = vcw_new(n, 0);
  for (size_t i = 0; i < VCW; i++) { if (i * 8 < n && i * 8 < vcw_req[b]) q[i] = VBLK[b][i]; VBLK[b][i] = 0xDEADDEADDEADDEADULL; }
  vcw_state[b] = 2;
  return q;
#else
  /* in place: what lies beyond the new size becomes slack (remember it as it is now) */
  for (size_t i = 0; i < VCW; i++) if (i * 8 >= n) vcw_slack[b][i] = VBLK[b][i];
  vcw_req[b] = n;
  return p;
#endif
}
size_t vcw_size(const void* p) { if (p == NULL) return 0; int b = vcw_find(p); V_ASSERT(b >= 0 && vcw_state[b] == 1, "pointer is a live heap block"); return b >= 0 ? vcw_req[b] : 0; }
void vcw_check(void) {
  for (int b = 0; b < VCW_BLOCKS; b++)
    if (b < vcw_n && vcw_state[b] == 1)
      for (size_t i = 0; i < VCW; i++)
        if (i * 8 >= vcw_req[b]) V_ASSERT(VBLK[b][i] == vcw_slack[b][i], "no write beyond the size requested from malloc/realloc (buffer overflow)");
}
int vcw_live(void) { int n = 0; for (int b = 0; b < VCW_BLOCKS; b++) if (b < vcw_n && vcw_state[b] == 1) n++; return n; }
