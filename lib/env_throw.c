/* exception_throw recorder.  Exception.c is compiled with
 * -Dexception_throw=cello_real_exception_throw, so every throw() in the library
 * lands here: the harness oracle is evaluated at the throw point, then the path
 * ends (the real function longjmps out of the operation and never returns). */
#include "Cello.h"
#include "verif.h"
void* V_thrown = NULL;
int V_throw_count = 0;
var exception_throw(var obj, const char* fmt, var args) {
  V_thrown = obj;
  V_throw_count++;
  verif_on_throw(obj);
  V_END_PATH();
  return NULL;
}
