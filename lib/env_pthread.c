/* env_pthread.c -- contract stubs for the pthread calls Thread.c makes.  Return codes are chosen by the
 * harness (symbolic, restricted to the codes POSIX documents for the call); every call is counted and its
 * handle argument recorded so that the harness can check that the wrappers forward exactly once, to the
 * right object. */
#include <pthread.h>
#include <errno.h>
#include "verif.h"
int vp_lock_rc, vp_trylock_rc, vp_unlock_rc, vp_create_rc, vp_join_rc, vp_kill_rc;
int vp_lock_calls, vp_trylock_calls, vp_unlock_calls, vp_create_calls, vp_join_calls, vp_init_calls, vp_destroy_calls;
pthread_mutex_t* vp_last_mutex; void* (*vp_start)(void*); void* vp_start_arg; pthread_t vp_joined;
int vp_held = 0;                   /* model of the mutex state, for the with-block / sequence checks */
void* vp_specific = 0; int vp_key_created = 0;
int pthread_mutex_init(pthread_mutex_t* m, const pthread_mutexattr_t* a) { vp_init_calls++; vp_last_mutex = m; return 0; }
int pthread_mutex_destroy(pthread_mutex_t* m) { vp_destroy_calls++; vp_last_mutex = m; return 0; }
int pthread_mutex_lock(pthread_mutex_t* m) { vp_lock_calls++; vp_last_mutex = m; if (vp_lock_rc == 0) vp_held++; return vp_lock_rc; }
int pthread_mutex_trylock(pthread_mutex_t* m) { vp_trylock_calls++; vp_last_mutex = m; if (vp_trylock_rc == 0) vp_held++; return vp_trylock_rc; }
int pthread_mutex_unlock(pthread_mutex_t* m) { vp_unlock_calls++; vp_last_mutex = m; if (vp_unlock_rc == 0) vp_held--; return vp_unlock_rc; }
int pthread_create(pthread_t* t, const pthread_attr_t* a, void* (*f)(void*), void* arg) { vp_create_calls++; vp_start = f; vp_start_arg = arg; if (vp_create_rc == 0) *t = (pthread_t)0x1234; return vp_create_rc; }
int pthread_join(pthread_t t, void** r) { vp_join_calls++; vp_joined = t; return vp_join_rc; }
int pthread_kill(pthread_t t, int sig) { return vp_kill_rc; }
int pthread_key_create(pthread_key_t* k, void (*d)(void*)) { vp_key_created++; *k = 7; return 0; }
int pthread_key_delete(pthread_key_t k) { return 0; }
void* pthread_getspecific(pthread_key_t k) { V_ASSERT(k == 7 && vp_key_created == 1, "thread-local key created exactly once before use"); return vp_specific; }
int pthread_setspecific(pthread_key_t k, const void* v) { V_ASSERT(k == 7 && vp_key_created == 1, "thread-local key created exactly once before use"); vp_specific = (void*)v; return 0; }
pthread_t pthread_self(void) { return (pthread_t)0x4321; }
int atexit(void (*f)(void)) { return 0; }
