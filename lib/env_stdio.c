/* env_stdio.c -- contract model of the C stdio calls File.c makes, over ONE in-memory file.
 * Handles are pointers into VF[]; every call asserts that its handle is a currently open stream (so a
 * NULL, closed or stale handle reaching libc is an assertion failure), fopen may fail, fclose may report
 * an error (the stream is closed regardless, as ISO C says), fread/fwrite move whole items only.
 * Content is a byte array of VF_MAX bytes; the file keeps its content across close/reopen. */
#include <stdio.h>
#include <stdint.h>
#include "verif.h"
#ifndef VF_MAX
#define VF_MAX 8
#endif
#define VF_HANDLES 4
struct vfile { int open; size_t pos; int eof; int writable; };
static struct vfile VF[VF_HANDLES];
unsigned char vf_content[VF_MAX]; size_t vf_size = 0;
int vf_opens = 0, vf_closes = 0, vf_next = 0;
int vf_fail_open = 0, vf_fail_close = 0;     /* set by the harness (symbolic) */
static struct vfile* vf_of(FILE* f) {
  for (int i = 0; i < VF_HANDLES; i++) if ((void*)f == (void*)&VF[i]) return &VF[i];
  return 0;
}
static struct vfile* vf_live(FILE* f, const char* what) {
  struct vfile* v = vf_of(f);
  V_ASSERT(f != NULL, "stdio called with a NULL stream");
  V_ASSERT(v != 0 && v->open, "stdio called with a stream that is not open (closed or stale handle)");
  return (v != 0 && v->open) ? v : 0;
}
int vf_open_streams(void) { int n = 0; for (int i = 0; i < VF_HANDLES; i++) n += VF[i].open; return n; }
FILE* fopen(const char* name, const char* mode) {
  if (vf_fail_open) return NULL;
  V_ASSERT(vf_next < VF_HANDLES, "harness bound: enough stream handles");
  struct vfile* v = &VF[vf_next++];
  v->open = 1; v->pos = 0; v->eof = 0; v->writable = (mode[0] != 'r') || mode[1] == '+';
  if (mode[0] == 'w') vf_size = 0;
  if (mode[0] == 'a') v->pos = vf_size;
  vf_opens++;
  return (FILE*)v;
}
int fclose(FILE* f) {
  struct vfile* v = vf_live(f, "fclose");
  if (v) { v->open = 0; vf_closes++; }
  return vf_fail_close ? EOF : 0;
}
size_t fread(void* ptr, size_t size, size_t nmemb, FILE* f) {
  struct vfile* v = vf_live(f, "fread"); if (!v) return 0;
  size_t done = 0;
  for (size_t k = 0; k < nmemb; k++) {
    if (size == 0 || v->pos + size > vf_size) { if (size) v->eof = 1; break; }
    for (size_t i = 0; i < size; i++) ((unsigned char*)ptr)[k * size + i] = vf_content[v->pos + i];
    v->pos += size; done++;
  }
  return done;
}
size_t fwrite(const void* ptr, size_t size, size_t nmemb, FILE* f) {
  struct vfile* v = vf_live(f, "fwrite"); if (!v) return 0;
  size_t done = 0;
  for (size_t k = 0; k < nmemb; k++) {
    if (size == 0 || v->pos + size > VF_MAX || !v->writable) break;
    for (size_t i = 0; i < size; i++) vf_content[v->pos + i] = ((const unsigned char*)ptr)[k * size + i];
    v->pos += size; if (v->pos > vf_size) vf_size = v->pos; done++;
  }
  return done;
}
int fseek(FILE* f, long off, int whence) {
  struct vfile* v = vf_live(f, "fseek"); if (!v) return -1;
  long base = whence == SEEK_SET ? 0 : whence == SEEK_CUR ? (long)v->pos : whence == SEEK_END ? (long)vf_size : -1;
  if (base < 0 || base + off < 0 || base + off > VF_MAX) return -1;
  v->pos = (size_t)(base + off); v->eof = 0;
  return 0;
}
long ftell(FILE* f) { struct vfile* v = vf_live(f, "ftell"); return v ? (long)v->pos : -1; }
int feof(FILE* f) { struct vfile* v = vf_live(f, "feof"); return v ? v->eof : 0; }
int fflush(FILE* f) { struct vfile* v = vf_live(f, "fflush"); return v ? 0 : EOF; }
size_t vf_pos(FILE* f) { struct vfile* v = vf_of(f); return v ? v->pos : 0; }
int vf_is_open(FILE* f) { struct vfile* v = vf_of(f); return v && v->open; }
