/* env_elem.h -- the probe element of the Layer-B harnesses.
 *
 * The harness TU does   #define eq verif_eq   (likewise cmp hash assign destruct) and then
 * #include "<repo>/src/<Unit>.c" verbatim, so every element-level callback of the unit under
 * test lands here instead of in the dispatcher.  Elements are objects of the real static
 * Cello type `Elem` (16-byte payload: value + ownership token) declared with the real
 * Cello() macro, so size(), type_of(), cast() and header handling stay the real code.
 *
 *   hash  : an arbitrary function of the value, H[val]  (H is a free array => every collision
 *           pattern, independent of Int/String hashing)
 *   eq/cmp: on the value
 *   assign: constructs into fresh (token 0) memory by issuing a new token, or overwrites a live
 *           element in place keeping its token;  destruct: retires the token.
 *   ledger: tok_state[] 0 unissued / 1 live / 2 retired -- double finalisation, finalisation of
 *           something never constructed, duplication and loss of elements are assertion failures.
 */
#ifndef ENV_ELEM_H
#define ENV_ELEM_H
#include "verif.h"
#ifndef ELEM_D
#define ELEM_D 6          /* value domain 0..ELEM_D-1 */
#endif
#ifndef ELEM_MAXTOK
#define ELEM_MAXTOK 24
#endif
struct Elem { int64_t val; int64_t tok; };
static var Elem = Cello(Elem);
/* a WIDER probe type (24-byte payload) sharing Elem's prefix: used as value type where the unit under test handles
 * keys and values of different sizes (a size taken from the wrong one of the two then loses `extra`);
 * a well-formed ElemV always has extra == ELEMV_TAG(val) */
struct ElemV { int64_t val; int64_t tok; int64_t extra; };
static var ElemV = Cello(ElemV);
#define ELEMV_TAG(v) ((int64_t)(v) ^ 0x5A5A5A5A)
uint64_t ELEM_H[ELEM_D];
int elem_tok_state[ELEM_MAXTOK];
int elem_next_tok = 1;
int elem_ledger_ok = 1;     /* cleared on any ledger violation (asserted too) */

static int elem_live_count(void) { int n = 0; for (int i = 1; i < ELEM_MAXTOK; i++) if (elem_tok_state[i] == 1) n++; return n; }
static int elem_issue(void) { int t = elem_next_tok++; V_ASSERT(t < ELEM_MAXTOK, "harness: token space large enough"); elem_tok_state[t] = 1; return t; }
static int elem_is_live(var x) { int64_t t = ((struct Elem*)x)->tok; return t > 0 && t < ELEM_MAXTOK && elem_tok_state[t] == 1; }

bool verif_eq(var a, var b) { return ((struct Elem*)a)->val == ((struct Elem*)b)->val; }
int verif_cmp(var a, var b) { int64_t x = ((struct Elem*)a)->val, y = ((struct Elem*)b)->val; return x < y ? -1 : x > y ? 1 : 0; }
bool verif_lt(var a, var b) { return ((struct Elem*)a)->val < ((struct Elem*)b)->val; }
/* the object currently used as probe key may be given a CONSTANT hash by the harness (so that the slot
 * arithmetic of the unit folds); the harness then assumes ELEM_H[its value] equals that constant */
var elem_probe_key = NULL; uint64_t elem_probe_hash = 0;
uint64_t verif_hash(var a) { if (a == elem_probe_key) return elem_probe_hash; int64_t k = ((struct Elem*)a)->val; V_ASSERT(k >= 0 && k < ELEM_D, "harness: element value inside the hash domain"); return ELEM_H[k]; }
var verif_assign(var dst, var src) {
  struct Elem* d = dst; struct Elem* s = src;
  if (d->tok == 0) { d->tok = elem_issue(); }
  else { V_ASSERT(elem_is_live(dst), "ledger: assignment over an element that was already finalised"); }
  d->val = s->val;
  if (((struct Header*)dst - 1)->type == ElemV) ((struct ElemV*)dst)->extra = ((struct ElemV*)src)->extra;
  return dst;
}
var verif_destruct(var x) {
  struct Elem* e = x;
  if (!elem_is_live(x)) elem_ledger_ok = 0;
  V_ASSERT(elem_is_live(x), "ledger: element finalised exactly once (destruct of a never-constructed or already finalised element)");
  if (e->tok > 0 && e->tok < ELEM_MAXTOK) elem_tok_state[e->tok] = 2;
  return x;
}
#endif
