/* env_vcap.c -- fixed-capacity model of realloc/calloc/free for byte buffers whose size depends
 * on symbolic data (String storage).  cbmc's own malloc with a symbolic size makes every access
 * an array-theory query (String_Rem ran out of 12 GB); here every block is a cbmc object of the
 * CONSTANT size VCAP, and the requested size n is kept in ghost state:
 *   - bytes [n, VCAP) are filled with nondeterministic "slack" values that are remembered;
 *     vcap_check() asserts they are unchanged  => a write past the requested size is detected;
 *   - a read past the requested size returns an arbitrary value, so it is detected whenever it
 *     can influence a result the harness checks (e.g. strlen running past a missing terminator);
 *   - a request above VCAP is an assertion failure of the harness bound, accesses above VCAP are
 *     cbmc --bounds-check failures; free/realloc of a non-live block is an assertion failure.
 * Used by compiling the unit with -Drealloc=vcap_realloc -Dcalloc=vcap_calloc -Dfree=vcap_free.   */
#include <stdlib.h>
#include <stdint.h>
#include "verif.h"
#ifndef VCAP
#define VCAP 24
#endif
#define VCAP_BLOCKS 12
static unsigned char* vcap_ptr[VCAP_BLOCKS];
size_t vcap_req[VCAP_BLOCKS];
static int vcap_state[VCAP_BLOCKS];            /* 0 unused, 1 live, 2 freed */
static unsigned char vcap_slack[VCAP_BLOCKS][VCAP];
static int vcap_n = 0;
int vcap_frees = 0;
#ifndef V_NATIVE
unsigned char nondet_uchar(void);
#else
static unsigned char nondet_uchar(void) { return 0xA5; }
#endif
static int vcap_find(const void* p) { for (int i = 0; i < VCAP_BLOCKS; i++) if (i < vcap_n && vcap_ptr[i] == (unsigned char*)p) return i; return -1; }
static void* vcap_new(size_t n, int zero) {
  V_ASSERT(n <= VCAP, "harness bound: requested block fits the fixed capacity VCAP");
  V_ASSERT(vcap_n < VCAP_BLOCKS, "harness bound: enough block descriptors");
  unsigned char* q = malloc(VCAP);
  V_ASSUME(q != NULL);
  int b = vcap_n++;
  vcap_ptr[b] = q; vcap_req[b] = n; vcap_state[b] = 1;
  for (size_t i = 0; i < VCAP; i++) {
    unsigned char c = nondet_uchar();
    vcap_slack[b][i] = c;
    q[i] = (zero && i < n) ? 0 : c;      /* malloc'ed bytes are arbitrary too */
  }
  return q;
}
void* vcap_calloc(size_t a, size_t b) { return vcap_new(a * b, 1); }
void* vcap_malloc(size_t n) { return vcap_new(n, 0); }
void vcap_free(void* p) {
  if (p == NULL) return;
  int b = vcap_find(p);
  V_ASSERT(b >= 0 && vcap_state[b] == 1, "free/realloc only of a live heap block, exactly once");
  if (b >= 0) vcap_state[b] = 2;
  vcap_frees++;
  free(p);
}
void* vcap_realloc(void* p, size_t n) {
  if (p == NULL) return vcap_new(n, 0);
  int b = vcap_find(p);
  V_ASSERT(b >= 0 && vcap_state[b] == 1, "free/realloc only of a live heap block, exactly once");
  size_t old = b >= 0 ? vcap_req[b] : 0;
  unsigned char* q = vcap_new(n, 0);
  for (size_t i = 0; i < VCAP; i++) if (i < n && i < old) q[i] = ((unsigned char*)p)[i];
  if (b >= 0) vcap_state[b] = 2;
  free(p);
  return q;
}
/* requested size of a live block (harness oracle: terminator inside the allocation) */
size_t vcap_size(const void* p) { int b = vcap_find(p); V_ASSERT(b >= 0 && vcap_state[b] == 1, "pointer is a live heap block"); return b >= 0 ? vcap_req[b] : 0; }
/* all live blocks: slack bytes untouched */
void vcap_check(void) {
  for (int b = 0; b < VCAP_BLOCKS; b++) {
    if (b < vcap_n && vcap_state[b] == 1) {
      for (size_t i = 0; i < VCAP; i++)
        if (i >= vcap_req[b]) V_ASSERT(vcap_ptr[b][i] == vcap_slack[b][i], "no write beyond the size requested from realloc/calloc (buffer overflow)");
    }
  }
}
int vcap_live(void) { int n = 0; for (int b = 0; b < VCAP_BLOCKS; b++) if (b < vcap_n && vcap_state[b] == 1) n++; return n; }
