/* C12 / C19 (dispatcher level): invalid uses that the checked build must turn into the documented
 * exception, BEFORE anything is invoked or changed.  Full real library, concrete object shapes, symbolic
 * payloads.  -DCASE=n selects the misuse; the throw oracle checks the exception object and that the
 * object operated on is byte-for-byte what it was. */
#include "verif.h"
struct Inputs { int64_t a; double d; unsigned char s[4]; uint64_t n; int64_t idx; };
#ifndef V_REPLAY_INPUT_ONLY
#include "Cello.h"
V_DECLARE_INPUTS
static var expect_throw = NULL; static const uint64_t* snap_ptr = NULL; static uint64_t snap[8]; static size_t snap_words = 0; static int reached_call = 0;
static void watch(const void* p, size_t words) { snap_ptr = p; snap_words = words; for (size_t i = 0; i < 8; i++) if (i < words) snap[i] = ((const uint64_t*)p)[i]; }
void verif_on_throw(void* obj) {
  V_ASSERT(expect_throw != NULL, "unexpected exception");
  if (expect_throw == NULL) return;
  V_ASSERT(obj == expect_throw, "the documented exception type is raised");
  if (obj != expect_throw) return;
  _Bool same = 1; for (size_t i = 0; i < 8; i++) if (i < snap_words && snap_ptr[i] != snap[i]) same = 0;
  V_ASSERT(same, "the object operated on is left exactly as it was");
  V_ASSERT(reached_call == 0, "the exception is raised instead of invoking anything");
  V_WITNESS_OPT("throw path reached");
}
static var my_call(var args) { reached_call++; return NULL; }
V_HARNESS {
  V_LOAD_INPUTS();
  IN.s[3] = 0;
  struct Int* i = $I(IN.a); struct Float* f = $F(IN.d); struct String* s = $S((char*)IN.s);
#if CASE == 1
  expect_throw = ValueError; type_of(NULL);
#elif CASE == 2
  watch(i, 1); header(i)->magic = (var)(uintptr_t)(IN.n | 1); V_ASSUME(header(i)->magic != (var)CELLO_MAGIC_NUM);
  expect_throw = ValueError; type_of(i);
#elif CASE == 3
  watch(i, 1); expect_throw = ClassError; len(i);                 /* Int does not implement Len */
#elif CASE == 4
  watch(i, 1); expect_throw = ClassError; push(i, f);             /* Int does not implement Push */
#elif CASE == 5
  { struct Map* m = $(Map, $(Range, $I(0), 0, 3, 1), NULL, $(Function, my_call)); watch(m, 3); expect_throw = ClassError; iter_type(m); }   /* Map implements Iter but leaves iter_type empty */
#elif CASE == 6
  watch(i, 1); expect_throw = ValueError; cast(i, Float);         /* cast to a different type */
#elif CASE == 7
  watch(f, 1); expect_throw = ValueError; cast(f, Int);
#elif CASE == 8
  watch(s, 1); expect_throw = ValueError; resize(s, IN.n % 16);   /* a stack String cannot be reallocated */
#elif CASE == 9
  watch(s, 1); expect_throw = ValueError; concat(s, $S("x"));
#elif CASE == 10
  watch(s, 1); expect_throw = ValueError; assign(s, $S("xy"));
#elif CASE == 11
  watch((char*)i - sizeof(struct Header), 1 + sizeof(struct Header) / 8); expect_throw = ResourceError; del_raw(i);      /* a stack object is never freed */
#elif CASE == 12
  watch((char*)i - sizeof(struct Header), 1 + sizeof(struct Header) / 8); expect_throw = ResourceError; dealloc(i);
#elif CASE == 13
  expect_throw = ValueError; dealloc(NULL);                      /* NULL is rejected by type_of before anything else */
#elif CASE == 14
  { var t = tuple(i, f); watch(((struct Tuple*)t)->items, 3); expect_throw = ValueError; push(t, s); }                      /* stack Tuple */
#elif CASE == 15
  { var t = tuple(i, f); watch(((struct Tuple*)t)->items, 3); expect_throw = ValueError; pop(t); }
#elif CASE == 16
  { var t = tuple(i, f, s); watch(((struct Tuple*)t)->items, 4); expect_throw = ValueError; pop_at(t, $I(0)); }             /* must not shift the items before refusing */
#elif CASE == 17
  { var t = tuple(i, f); watch(((struct Tuple*)t)->items, 3); expect_throw = ValueError; resize(t, 1); }
#elif CASE == 18
  { var t = tuple(i, f); watch(((struct Tuple*)t)->items, 3); V_ASSUME(IN.idx < -2 || IN.idx >= 2); expect_throw = IndexOutOfBoundsError; get(t, $I(IN.idx)); }
#elif CASE == 19
  { var t = tuple(i, f); watch(((struct Tuple*)t)->items, 3); V_ASSUME(IN.idx < -2 || IN.idx >= 2); expect_throw = IndexOutOfBoundsError; set(t, $I(IN.idx), s); }
#elif CASE == 20
  { struct Tuple* t = new_raw(Tuple, i, f); watch(t->items, 3); expect_throw = FormatError; resize(t, 2 + IN.n % 4); }     /* a Tuple cannot grow by resize */
#elif CASE == 21
  { struct Tuple* t = new_raw(Tuple); expect_throw = IndexOutOfBoundsError; pop(t); }                                       /* pop from an empty heap Tuple */
#elif CASE == 22
  type_of(Int);    /* (a static type object's header type is filled in lazily on first use) */
  type_of(Int);    /* (a static type object's header type is filled in lazily on first use) */
  watch((char*)Int - sizeof(struct Header), 3); expect_throw = ResourceError; dealloc(Int);                                 /* a static object is never freed */
#elif CASE == 23
  { struct Ref* r = $R(i); watch(r, 1); expect_throw = ClassError; call_with(r, tuple()); }                                 /* Ref does not implement Call */
#elif CASE == 24
  expect_throw = ClassError; type_method(Int, Current, current);                                                            /* type-level method on an unimplemented class */
#elif CASE == 25
  { struct Table* t = new_raw(Table, Int, Int); watch(t, 7); expect_throw = ValueError; set(t, i, s); }        /* value of the wrong type */
#elif CASE == 26
  { struct Table* t = new_raw(Table, Int, Int); watch(t, 7); expect_throw = ValueError; set(t, s, i); }        /* key of the wrong type */
#elif CASE == 27
  { struct Table* t = new_raw(Table, Int, Int); watch(t, 7); expect_throw = ValueError; mem(t, s); }
#elif CASE == 28
  { var t = new_raw(Tree, Int, Int); watch(t, 6); expect_throw = ValueError; set(t, i, s); }
#elif CASE == 29
  { var t = new_raw(Tree, Int, Int); watch(t, 6); expect_throw = ValueError; set(t, f, i); }
#elif CASE == 30
  { var t = new_raw(Tree, Int, Int); watch(t, 6); expect_throw = FormatError; resize(t, 1 + IN.n % 8); }       /* a Tree can only be resized to 0 */
#elif CASE == 31
  { var a = new_raw(Array, Int); watch(a, 5); expect_throw = IndexOutOfBoundsError; pop(a); }
#endif
  V_ASSERT(0, "the misuse must be reported by an exception");
}
#endif
