/* C19: every way of obtaining an object yields an object that carries its true type, the documented
 * allocation class and size(type) usable bytes; non-heap objects are never freed.  Full real library
 * (built with CELLO_NGC so that new/copy do not need a collector), concrete shapes, symbolic payloads.
 * -DCASE selects a group. */
#include "verif.h"
struct Inputs { int64_t a, b; double d; unsigned char s[4]; };
#ifndef V_REPLAY_INPUT_ONLY
#include "Cello.h"
V_DECLARE_INPUTS
V_NO_THROW_EXPECTED
struct Pt { int64_t x, y, z; };
static var Pt = Cello(Pt);
static void is_obj(var o, var type, int alloc, const char* what) {
  V_ASSERT(type_of(o) == type, "type_of gives the true type");
#if CELLO_ALLOC_CHECK == 1
  V_ASSERT(header(o)->alloc == (var)(intptr_t)alloc, "header records the documented allocation class");
#endif
#if CELLO_MAGIC_CHECK == 1
  V_ASSERT(header(o)->magic == (var)CELLO_MAGIC_NUM, "magic number intact");
#endif
}
static var twice(var args) { static struct Int out; return args; }
V_HARNESS {
  V_LOAD_INPUTS();
  IN.s[3] = 0;
#if CASE == 1
  /* stack ($), heap (new / new_raw / alloc / copy), static */
  struct Int* si = $I(IN.a); is_obj(si, Int, AllocStack, "$I");
  struct Float* sf = $F(IN.d); is_obj(sf, Float, AllocStack, "$F");
  struct String* ss = $S((char*)IN.s); is_obj(ss, String, AllocStack, "$S");
  struct Ref* sr = $R(si); is_obj(sr, Ref, AllocStack, "$R");
  var st = tuple(si, sf); is_obj(st, Tuple, AllocStack, "tuple()");
  struct Pt* sp = $(Pt, 1, 2, IN.b); is_obj(sp, Pt, AllocStack, "$(Pt)"); V_ASSERT(size(Pt) == sizeof(struct Pt) && sp->z == IN.b, "size(type) bytes usable");
  struct Int* hi = new(Int, si); is_obj(hi, Int, AllocHeap, "new"); V_ASSERT(hi->val == IN.a, "constructed from the argument");
  struct Int* ri = new_raw(Int, si); is_obj(ri, Int, AllocHeap, "new_raw");
  struct Int* oi = new_root(Int, si); is_obj(oi, Int, AllocHeap, "new_root");
  struct Pt* ap = alloc_raw(Pt); is_obj(ap, Pt, AllocHeap, "alloc_raw"); V_ASSERT(ap->x == 0 && ap->y == 0 && ap->z == 0, "alloc zeroes the object"); ap->z = IN.b; V_ASSERT(ap->z == IN.b, "last field writable: size(type) bytes belong to the object");
  struct Float* cf = copy(sf); is_obj(cf, Float, AllocHeap, "copy"); V_ASSERT(cf != sf && (cf->val == IN.d || IN.d != IN.d), "copy is a new heap object with the same value");
  struct String* cs = copy(ss); is_obj(cs, String, AllocHeap, "copy String"); V_ASSERT(cs->val != ss->val, "String copy owns its characters");
  V_WITNESS("case 1 done");
  is_obj(Int, Type, AllocStatic, "type object"); is_obj(Terminal, Type, AllocStatic, "Terminal"); is_obj(Pt, Type, AllocStatic, "user type");
  del(hi); del_raw(ri); del_root(oi); del_raw(ap); del(cf); del(cs);
#elif CASE == 2
  /* run-time type */
  var T = new_raw(Type, $S("Pair"), $I(sizeof(struct Pt)), $(Size, NULL));
  is_obj(T, Type, AllocHeap, "run-time type");
  V_ASSERT(size(T) == sizeof(struct Pt), "size of a run-time type is what it was created with");
  struct Pt* o = alloc_raw(T); is_obj(o, T, AllocHeap, "object of a run-time type"); o->z = IN.b; V_ASSERT(o->z == IN.b, "size(type) bytes usable");
  struct Pt* so = $(Pt, 0, 0, 0);
  V_WITNESS("case 2 done");
  V_ASSERT(type_implements(T, Size) && !type_implements(T, Cmp), "run-time type implements exactly what it was given");
  del_raw(o);
#elif CASE == 3
  /* elements of Array and List: embedded, typed as the element type */
  struct Int* x = $I(IN.a); struct Int* y = $I(IN.b);
  var arr = new_raw(Array, Int, x, y);
  var e0 = get(arr, $I(0)), e1 = get(arr, $I(-1));
  is_obj(e0, Int, AllocData, "Array element"); is_obj(e1, Int, AllocData, "Array element (negative index)");
  V_ASSERT(c_int(e0) == IN.a && c_int(e1) == IN.b, "elements hold the values");
  var it = iter_init(arr); is_obj(it, Int, AllocData, "Array iterator result"); V_ASSERT(iter_type(arr) == Int, "iter_type");
  push(arr, x); is_obj(get(arr, $I(2)), Int, AllocData, "element after growth");
  is_obj(get(arr, $I(0)), Int, AllocData, "moved element keeps its header");
  var lst = new_raw(List, Int, x, y);
  is_obj(get(lst, $I(1)), Int, AllocData, "List element"); is_obj(iter_init(lst), Int, AllocData, "List iterator result");
  V_WITNESS("case 3 done");
  del_raw(arr); del_raw(lst);
#elif CASE == 4
  /* keys and values of Table and Tree */
  struct Int* k = $I(7); struct Float* v = $F(IN.d);     /* concrete key: a symbolic key makes the slot index, and with it the embedded header the dispatcher reads, symbolic */
  var tab = new_raw(Table, Int, Float, k, v);
  var tv = get(tab, k); is_obj(tv, Float, AllocData, "Table value");
  var tk = iter_init(tab); is_obj(tk, Int, AllocData, "Table key from iteration");
  V_ASSERT(key_type(tab) == Int && val_type(tab) == Float, "key_type / val_type");
  var tre = new_raw(Tree, Int, Float, k, v);
  is_obj(get(tre, k), Float, AllocData, "Tree value"); is_obj(iter_init(tre), Int, AllocData, "Tree key from iteration");
  V_WITNESS("case 4 done");
  del_raw(tab); del_raw(tre);
#elif CASE == 5
  /* views and ranges */
  var r = range($I(3)); var c = iter_init(r); is_obj(c, Int, AllocStack, "Range iterator value"); V_ASSERT(iter_type(r) == Int, "Range iter_type");
  struct Int* x = $I(IN.a); struct Int* y = $I(IN.b);
  var arr = new_raw(Array, Int, x, y);
  var sl = slice(arr, $I(0), $I(2)); is_obj(sl, Slice, AllocStack, "slice view"); is_obj(iter_init(sl), Int, AllocData, "slice yields the underlying elements"); V_ASSERT(iter_type(sl) == Int, "Slice iter_type");
  var z = zip(arr, r); is_obj(z, Zip, AllocStack, "zip view"); var zt = iter_init(z); is_obj(zt, Tuple, AllocStack, "zip yields a Tuple"); V_ASSERT(iter_type(z) == Tuple, "Zip iter_type");
  is_obj(get(zt, $I(0)), Int, AllocData, "zip tuple item 0 is the array element");
  var m = map(arr, $(Function, twice)); is_obj(m, Map, AllocStack, "map view");
  var f = filter(arr, $(Function, twice)); is_obj(f, Filter, AllocStack, "filter view"); V_ASSERT(iter_type(f) == Int, "Filter iter_type");
  V_WITNESS("case 5 done");
  del_raw(arr);
#endif
}
#endif
