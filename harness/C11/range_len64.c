/* C11: Range_Len at full int64 width against the closed form, no iteration (overflow checks on,
 * operands restricted to the range where the closed form itself does not overflow). */
#include "verif.h"
struct Inputs { int64_t start, stop, step; };
#ifndef V_REPLAY_INPUT_ONLY
#include "Cello.h"
V_DECLARE_INPUTS
V_NO_THROW_EXPECTED
V_HARNESS {
  V_LOAD_INPUTS();
  int64_t a = IN.start, b = IN.stop, s = IN.step;
  const int64_t L = (int64_t)1 << 61;
  V_ASSUME(a > -L && a < L && b > -L && b < L && s > -L && s < L);
  var r = range($I(a), $I(b), $I(s));
  size_t n = len(r);
  V_WITNESS("len computed");
  size_t want = 0;
  if (s > 0 && b > a) want = (size_t)((b - 1 - a) / s) + 1;
  if (s < 0 && b > a) want = (size_t)((b - 1 - a) / (-s)) + 1;
  V_ASSERT(n == want, "Range: len equals the closed form over the whole int64 range (0 for empty ranges)");
}
#endif
