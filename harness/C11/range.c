/* C11: Range iteration vs len vs get, forwards and backwards, for start/stop in [-B,B] and step
 * in [-3,3] (0 included), through the real dispatch (iter_init/iter_next/iter_last/iter_prev/len/get
 * on a stack Range built by the real range_stack).
 * Definition (property text / Cello docs): step>0: start, start+step, ... < stop;
 * step<0: stop-1, stop-1+step, ... >= start;  step==0: empty. */
#include "verif.h"
#ifndef B
#define B 6
#endif
struct Inputs { int64_t start, stop, step; int64_t gi; };
#ifndef V_REPLAY_INPUT_ONLY
#include "Cello.h"
V_DECLARE_INPUTS
static var expect_throw = NULL;
void verif_on_throw(void* obj) {
  V_ASSERT(expect_throw != NULL, "operation raised an exception although its arguments are in contract");
  V_ASSERT(obj == expect_throw, "out-of-range get on a Range raises IndexOutOfBoundsError");
}
V_HARNESS {
  V_LOAD_INPUTS();
  int64_t a = IN.start, b = IN.stop, s = IN.step;
  V_ASSUME(a >= -B && a <= B && b >= -B && b <= B && s >= -3 && s <= 3);
#ifdef NONEMPTY_ONLY
  V_ASSUME(b > a && s != 0);
#endif
#ifdef ALIGNED_ONLY
  V_ASSUME(s == 0 || (b - 1 - a) % (s < 0 ? -s : s) == 0);
#endif
  var r = range($I(a), $I(b), $I(s));
  /* reference sequence */
  int64_t item[2 * B + 2]; size_t want = 0;
  if (s > 0) for (int64_t v = a; v < b && want < 2 * B + 2; v += s) item[want++] = v;
  if (s < 0) for (int64_t v = b - 1; v >= a && want < 2 * B + 2; v += s) item[want++] = v;
  /* forward */
  size_t n = 0; _Bool ok = 1;
  var c = iter_init(r);
  while (c != Terminal && n < 2 * B + 3) {
    if (n >= want || ((struct Int*)c)->val != item[n]) ok = 0;
    n++;
    c = iter_next(r, c);
  }
  V_WITNESS("range iterated");
  V_ASSERT(c == Terminal, "Range: forward iteration terminates");
  V_ASSERT(ok && n == want, "Range: forward iteration yields exactly the items of the definition, in order");
  V_ASSERT(len(r) == n, "Range: len equals the number of items iterated");
  /* backward */
  size_t m = 0; ok = 1;
  c = iter_last(r);
  while (c != Terminal && m < 2 * B + 3) {
    if (m >= want || ((struct Int*)c)->val != item[want - 1 - m]) ok = 0;
    m++;
    c = iter_prev(r, c);
  }
  V_ASSERT(c == Terminal && ok && m == want, "Range: backward iteration is the exact reverse of forward iteration");
  /* get: positive and negative indices */
  int64_t gi = IN.gi;
  V_ASSUME(gi >= -(int64_t)(2 * B + 3) && gi <= (int64_t)(2 * B + 3));
  if (gi >= 0 ? (uint64_t)gi < want : (uint64_t)(-gi) <= want) {
    int64_t idx = gi >= 0 ? gi : (int64_t)want + gi;
    V_ASSERT(((struct Int*)get(r, $I(gi)))->val == item[idx], "Range: get(i) is the i-th item (negative i counts from the end)");
  }
#ifndef NO_OOB_GET
  else {
    expect_throw = IndexOutOfBoundsError;
    get(r, $I(gi));
    V_ASSERT(0, "Range: get with an out-of-range index must raise IndexOutOfBoundsError");
  }
#endif
}
#endif
