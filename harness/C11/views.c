/* C11: the views of the real /repo/src/Iter.c (Slice incl. reverse, Zip, Filter, Map) over ABSTRACT underlying
 * iterables.  Calls to iter_init/iter_next/iter_last/iter_prev/iter_type/len/get/call_with inside Iter.c are
 * redirected (goto-instrument --replace-calls) to the harness: an underlying iterable is a sequence of n distinct
 * harness objects that asserts it is never advanced from Terminal, never given a cursor it did not hand out, and
 * never indexed out of range -- that is the "never reads outside it" oracle.  Slice arguments range over the
 * whole int64 (clamping), steps over [-3,3], lengths 0..NMAX; Filter predicates and Map images are free per position. */
#include "verif.h"
#ifndef NMAX
#define NMAX 4
#endif
struct Inputs { unsigned char na, nb; int64_t a, b, s; unsigned char omit; unsigned char pred[NMAX]; int64_t gi; };
#ifndef V_REPLAY_INPUT_ONLY
#include "Cello.h"
#include "Iter.c"      /* the real /repo/src/Iter.c */
V_DECLARE_INPUTS
#define OP_SLICE 1
#define OP_ZIP 2
#define OP_FILTER 3
#define OP_MAP 4

static uint64_t UAobj[4], UBobj[4];                 /* the two underlying iterables (opaque) */
#define UA ((var)&UAobj[3])
#define UB ((var)&UBobj[3])
static uint64_t ITA[NMAX][4], ITB[NMAX][4], IMG[NMAX][4];   /* their items, and the images under Map */
static var itemA(long i) { return (var)&ITA[i][3]; }
static var itemB(long i) { return (var)&ITB[i][3]; }
static long idxA(var p) { for (long i = 0; i < NMAX; i++) if (p == itemA(i)) return i; return -1; }
static long idxB(var p) { for (long i = 0; i < NMAX; i++) if (p == itemB(i)) return i; return -1; }
static size_t NA, NB; static int misuse = 0;
static var expect_throw = NULL;
void verif_on_throw(void* obj) { V_ASSERT(expect_throw != NULL, "view operation raised an exception although its arguments are in contract"); if (expect_throw) V_ASSERT(obj == expect_throw, "documented exception"); }

var v_iter_init(var it) { if (it == UA) return NA ? itemA(0) : Terminal; if (it == UB) return NB ? itemB(0) : Terminal; misuse = 1; return Terminal; }
var v_iter_last(var it) { if (it == UA) return NA ? itemA(NA - 1) : Terminal; if (it == UB) return NB ? itemB(NB - 1) : Terminal; misuse = 1; return Terminal; }
var v_iter_next(var it, var cur) {
  if (it == UA) { long i = idxA(cur); V_ASSERT(i >= 0 && (size_t)i < NA, "underlying iterable is only advanced from a cursor it handed out (never from Terminal, never outside)"); if (i < 0 || (size_t)i >= NA) { misuse = 1; return Terminal; } return (size_t)i + 1 < NA ? itemA(i + 1) : Terminal; }
  if (it == UB) { long i = idxB(cur); V_ASSERT(i >= 0 && (size_t)i < NB, "underlying iterable is only advanced from a cursor it handed out (never from Terminal, never outside)"); if (i < 0 || (size_t)i >= NB) { misuse = 1; return Terminal; } return (size_t)i + 1 < NB ? itemB(i + 1) : Terminal; }
  misuse = 1; return Terminal;
}
var v_iter_prev(var it, var cur) {
  if (it == UA) { long i = idxA(cur); V_ASSERT(i >= 0 && (size_t)i < NA, "underlying iterable is only stepped back from a cursor it handed out"); if (i < 0 || (size_t)i >= NA) { misuse = 1; return Terminal; } return i > 0 ? itemA(i - 1) : Terminal; }
  if (it == UB) { long i = idxB(cur); V_ASSERT(i >= 0 && (size_t)i < NB, "underlying iterable is only stepped back from a cursor it handed out"); if (i < 0 || (size_t)i >= NB) { misuse = 1; return Terminal; } return i > 0 ? itemB(i - 1) : Terminal; }
  misuse = 1; return Terminal;
}
static uint64_t ITYPE[4];
var v_iter_type(var it) { return (var)&ITYPE[3]; }
size_t v_len(var x) {
  if (x == UA) return NA; if (x == UB) return NB;
  struct Tuple* t = x; size_t n = 0; while (n < 6 && t->items[n] != Terminal) n++; return n;      /* argument / iterator tuples */
}
var v_get(var x, var key) {
  int64_t i = ((struct Int*)key)->val;
  if (x == UA) { if (i < 0) i += NA; V_ASSERT(i >= 0 && (size_t)i < NA, "underlying iterable is only indexed in range"); return (i >= 0 && (size_t)i < NA) ? itemA(i) : Terminal; }
  if (x == UB) { if (i < 0) i += NB; V_ASSERT(i >= 0 && (size_t)i < NB, "underlying iterable is only indexed in range"); return (i >= 0 && (size_t)i < NB) ? itemB(i) : Terminal; }
  struct Tuple* t = x; return t->items[i];
}
bool v_eq(var a, var b) { V_ASSERT(a != Terminal && b != Terminal, "Terminal is never compared as if it were an element"); return a == b; }
static uint64_t FUNobj[4];
#define FUN ((var)&FUNobj[3])
static int calls = 0;
var v_call(var f, var arg) {
  calls++;
  long i = idxA(arg); V_ASSERT(f == FUN && i >= 0 && (size_t)i < NA, "the function is applied to elements of the underlying iterable only");
  if (i < 0) return NULL;
#if OP == OP_MAP
  return (var)&IMG[i][3];
#else
  return (IN.pred[i] & 1) ? (var)&IMG[0][3] : NULL;
#endif
}

V_HARNESS {
  V_LOAD_INPUTS();
  NA = IN.na; NB = IN.nb; V_ASSUME(NA <= NMAX && NB <= NMAX);
#if OP == OP_SLICE
  int64_t a = IN.a, b = IN.b, s = IN.s;
  V_ASSUME(s >= -3 && s <= 3 && s != 0);
  int64_t n = (int64_t)NA;
  /* reference: Python-like clamping of start/stop, Cello's Range convention for negative steps */
#ifndef OMIT
#define OMIT 0
#endif
  /* which bounds are omitted (_) is a compile-time case: a symbolic choice would make the argument a merged pointer */
  int64_t st = (OMIT & 1) ? 0 : (a < 0 ? n + a : a); if (st > n) st = n; if (st < 0) st = 0;
  int64_t sp = (OMIT & 2) ? n : (b < 0 ? n + b : b); if (sp > n) sp = n; if (sp < 0) sp = 0;
  long want[NMAX + 1]; size_t wn = 0;
  if (s > 0) for (int64_t i = st; i < sp && wn <= NMAX; i += s) want[wn++] = (long)i;
  if (s < 0) for (int64_t i = sp - 1; i >= st && wn <= NMAX; i += s) want[wn++] = (long)i;
#if OMIT == 0
  var sl = slice(UA, $I(a), $I(b), $I(s));
#elif OMIT == 1
  var sl = slice(UA, _, $I(b), $I(s));
#elif OMIT == 2
  var sl = slice(UA, $I(a), _, $I(s));
#else
  var sl = slice(UA, _, _, $I(s));
#endif
  size_t cnt = 0; _Bool ok = 1;
  var c = Slice_Iter_Init(sl);
  for (int k = 0; k < NMAX + 2 && c != Terminal; k++) { if (cnt >= wn || c != itemA(want[cnt])) ok = 0; cnt++; c = Slice_Iter_Next(sl, c); }
  V_WITNESS("slice iterated");
  V_ASSERT(c == Terminal && ok && cnt == wn, "Slice: forward iteration yields exactly the elements at start, start+step, ... below stop (clamped), then Terminal");
  V_ASSERT(Slice_Len(sl) == wn, "Slice: len equals the number of elements it yields");
  size_t cb = 0; ok = 1;
  c = Slice_Iter_Last(sl);
  for (int k = 0; k < NMAX + 2 && c != Terminal; k++) { if (cb >= wn || c != itemA(want[wn - 1 - cb])) ok = 0; cb++; c = Slice_Iter_Prev(sl, c); }
  V_ASSERT(c == Terminal && ok && cb == wn, "Slice: backward iteration is the exact reverse");
  if (wn > 0) { int64_t gi = IN.gi; V_ASSUME(gi >= 0 && (size_t)gi < wn); V_ASSERT(Slice_Get(sl, $I(gi)) == itemA(want[gi]), "Slice: get(i) is the i-th element of the view"); }
#ifdef WITH_MEM
  /* membership: eq is identity on the opaque items (redirected); the key is an item of the underlying iterable or a foreign object */
  { long kj = (long)(IN.omit % (NMAX + 1)); var key = kj < NMAX ? itemA(kj) : (var)&IMG[0][3];
    _Bool present = 0; for (size_t i = 0; i <= NMAX; i++) if (i < wn && kj < NMAX && want[i] == kj) present = 1;
    V_ASSERT(Slice_Mem(sl, key) == present, "Slice: mem answers true exactly for the elements the view yields (false, not an exception, for an absent one)"); }
#endif
  V_ASSERT(!misuse, "Slice never reads outside the underlying iterable");
#elif OP == OP_ZIP
  var z = zip(UA, UB);
  size_t m = NA < NB ? NA : NB;
  size_t cnt = 0; _Bool ok = 1;
  var c = Zip_Iter_Init(z);
  for (int k = 0; k < NMAX + 2 && c != Terminal; k++) {
    struct Tuple* t = c; if (cnt >= m || t->items[0] != itemA(cnt) || t->items[1] != itemB(cnt) || t->items[2] != Terminal) ok = 0;
    cnt++; c = Zip_Iter_Next(z, c);
  }
  V_WITNESS("zip iterated");
  V_ASSERT(c == Terminal && ok && cnt == m, "Zip: forward iteration yields the tuples (a_i, b_i) up to the shortest input, then Terminal");
  V_ASSERT(Zip_Len(z) == m, "Zip: len is the length of the shortest input");
  size_t cb = 0; ok = 1;
  c = Zip_Iter_Last(z);
  for (int k = 0; k < NMAX + 2 && c != Terminal; k++) {
    struct Tuple* t = c; if (cb >= m || t->items[0] != itemA(m - 1 - cb) || t->items[1] != itemB(m - 1 - cb)) ok = 0;
    cb++; c = Zip_Iter_Prev(z, c);
  }
#ifndef NO_ZIP_BACKWARD
  V_ASSERT(c == Terminal && ok && cb == m, "Zip: backward iteration yields the same tuples in reverse order (also for inputs of different lengths)");
#endif
  if (m > 0) { int64_t gi = IN.gi; V_ASSUME(gi >= 0 && (size_t)gi < m); struct Tuple* t = Zip_Get(z, $I(gi)); V_ASSERT(t->items[0] == itemA(gi) && t->items[1] == itemB(gi), "Zip: get(i) is the i-th tuple"); }
  V_ASSERT(!misuse, "Zip never reads outside its inputs");
#elif OP == OP_FILTER
  var f = filter(UA, FUN);
  long want[NMAX]; size_t wn = 0;
  for (size_t i = 0; i < NMAX; i++) if (i < NA && (IN.pred[i] & 1)) want[wn++] = (long)i;
  size_t cnt = 0; _Bool ok = 1;
  var c = Filter_Iter_Init(f);
  for (int k = 0; k < NMAX + 2 && c != Terminal; k++) { if (cnt >= wn || c != itemA(want[cnt])) ok = 0; cnt++; c = Filter_Iter_Next(f, c); }
  V_WITNESS("filter iterated");
  V_ASSERT(c == Terminal && ok && cnt == wn, "Filter: forward iteration yields exactly the accepted elements, in order, then Terminal");
  size_t cb = 0; ok = 1;
  c = Filter_Iter_Last(f);
  for (int k = 0; k < NMAX + 2 && c != Terminal; k++) { if (cb >= wn || c != itemA(want[wn - 1 - cb])) ok = 0; cb++; c = Filter_Iter_Prev(f, c); }
  V_ASSERT(c == Terminal && ok && cb == wn, "Filter: backward iteration is the exact reverse");
  V_ASSERT(!misuse, "Filter never reads outside the underlying iterable");
#elif OP == OP_MAP
  var mp = map(UA, FUN);
  size_t cnt = 0; _Bool ok = 1;
  var c = Map_Iter_Init(mp);
  for (int k = 0; k < NMAX + 2 && c != Terminal; k++) { if (cnt >= NA || c != (var)&IMG[cnt][3]) ok = 0; cnt++; c = Map_Iter_Next(mp, c); }
  V_WITNESS("map iterated");
  V_ASSERT(c == Terminal && ok && cnt == NA && calls == (int)NA, "Map: forward iteration yields the images in order, the function applied once per element, then Terminal");
  V_ASSERT(Map_Len(mp) == NA, "Map: len is the length of the underlying iterable");
  size_t cb = 0; ok = 1;
  c = Map_Iter_Last(mp);
  for (int k = 0; k < NMAX + 2 && c != Terminal; k++) { if (cb >= NA || c != (var)&IMG[NA - 1 - cb][3]) ok = 0; cb++; c = Map_Iter_Prev(mp, c); }
  V_ASSERT(c == Terminal && ok && cb == NA, "Map: backward iteration yields the images in reverse order");
  if (NA > 0) { int64_t gi = IN.gi; V_ASSUME(gi >= 0 && (size_t)gi < NA); V_ASSERT(Map_Get(mp, $I(gi)) == (var)&IMG[gi][3], "Map: get(i) is the image of the i-th element"); }
  V_ASSERT(!misuse, "Map never reads outside the underlying iterable");
#endif
}
#endif
