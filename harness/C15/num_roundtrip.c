/* C15: show / look and print / scan round trip of Int and Float through the real Int_Show / Float_Show ->
 * print_to_with -> format_to -> String_Format_To and Int_Look / Float_Look -> scan_from_with -> format_from ->
 * String_Format_From.  The decimal digits themselves are libc's (FFI): lib/env_printf.c replaces them by an
 * abstract injective fixed-width text, so what is decided is what Cello adds: the C value and width handed to
 * the writer, the pointer and width handed to the reader, and the position accounting -- for every int64 /
 * every finite double, at an arbitrary start position, alone and followed by a separator and a second value. */
#include "verif.h"
struct Inputs { long long a; long long b; double x; double y; unsigned char prefix; };
#ifndef V_REPLAY_INPUT_ONLY
#include "Cello.h"
#include <math.h>
V_DECLARE_INPUTS
V_NO_THROW_EXPECTED
void vcap_check(void);
static _Bool finite_d(double d) { return d == d && d - d == 0.0; }
static _Bool same_d(double p, double q) { union { double d; unsigned long long u; } a, b; a.d = p; b.d = q; return a.u == b.u; }
V_HARNESS {
  V_LOAD_INPUTS();
  struct String* out = new_raw(String);
  int pos0 = 0;
#ifdef WITH_PREFIX
  pos0 = print_to(out, 0, "#>"); V_ASSERT(pos0 == 2, "two prefix characters written");
#endif
#if KIND == 0   /* Int */
  var v1 = $I(IN.a); var v2 = $I(IN.b); var r1 = $I(IN.b ^ 0x55); var r2 = $I(IN.a ^ 0x33);
#else
  V_ASSUME(finite_d(IN.x) && finite_d(IN.y));
  var v1 = $F(IN.x); var v2 = $F(IN.y); var r1 = $F(IN.y + 1.0); var r2 = $F(IN.x + 1.0);
#endif
#if VIA == 0    /* show_to / look_from */
  int p1 = show_to(v1, out, pos0);
  int p2 = print_to(out, p1, ",");
  int p3 = show_to(v2, out, p2);
#elif VIA == 1  /* print_to with %$ and one format for both */
  int p3 = print_to(out, pos0, "%$,%$", v1, v2);
  int p1 = p3, p2 = p3;
#else           /* print_to with the numeric specification */
#if KIND == 0
#if VIA == 3
#define NUMSPEC "%i"
  V_ASSUME(IN.a >= -2147483648LL && IN.a <= 2147483647LL && IN.b >= -2147483648LL && IN.b <= 2147483647LL);
#else
#define NUMSPEC "%li"
#endif
  int p1 = print_to(out, pos0, NUMSPEC, v1);
  int p2 = print_to(out, p1, ",");
  int p3 = print_to(out, p2, NUMSPEC, v2);
#else
  int p1 = print_to(out, pos0, "%f", v1);
  int p2 = print_to(out, p1, ",");
  int p3 = print_to(out, p2, "%f", v2);
#endif
#endif
  V_WITNESS("written");
  size_t outlen = 0; while (out->val[outlen]) outlen++;
  V_ASSERT((size_t)p3 == outlen && p3 > pos0, "the writer returns the position after the characters it wrote");
#if VIA == 0
  int q1 = look_from(r1, out, pos0);
  V_ASSERT(q1 == p1, "look consumes exactly the characters show wrote");
  int q3 = look_from(r2, out, p2);
  V_ASSERT(q3 == p3, "the second value is read from its own start position to the end");
#elif VIA == 1
  int q3 = scan_from(out, pos0, "%$,%$", r1, r2);
  V_ASSERT(q3 == p3, "scan_from consumes exactly the characters print_to wrote");
#else
#if KIND == 0
  int q1 = scan_from(out, pos0, NUMSPEC, r1);
  int q3 = scan_from(out, p2, NUMSPEC, r2);
#else
  int q1 = scan_from(out, pos0, "%lf", r1);
  int q3 = scan_from(out, p2, "%lf", r2);
#endif
  V_ASSERT(q1 == p1 && q3 == p3, "scan_from consumes exactly the characters print_to wrote");
#endif
#if KIND == 0
  V_ASSERT(c_int(r1) == IN.a && c_int(r2) == IN.b, "the Int read back equals the Int written");
  V_ASSERT(eq(r1, v1) && eq(r2, v2), "eq agrees");
#else
  V_ASSERT(same_d(c_float(r1), IN.x) && same_d(c_float(r2), IN.y), "the Float read back equals the Float written (the model's text is exact)");
#endif
  vcap_check();
}
#endif
