/* C15: show / look round trip of a String through the real String_Show -> print_to_with -> format_to ->
 * String_Format_To and String_Look -> scan_from_with -> format_from -> String_Format_From, over the
 * formatting-library model lib/env_printf.c (literal text, %c, %n).  The string content is symbolic over
 * the full byte range (quotes, backslashes, control characters included), written at an arbitrary start
 * position after an arbitrary prefix character, optionally followed by a second shown string.
 * Checked: the value read back equals the original, look consumes exactly the characters show wrote. */
#include "verif.h"
#ifndef SLEN
#define SLEN 2
#endif
struct Inputs { unsigned char s[SLEN + 1]; unsigned char t[SLEN + 1]; unsigned char prefix; };
#ifndef V_REPLAY_INPUT_ONLY
#include "Cello.h"
V_DECLARE_INPUTS
V_NO_THROW_EXPECTED
void vcap_check(void);
V_HARNESS {
  V_LOAD_INPUTS();
  V_ASSUME(IN.s[SLEN] == 0 && IN.t[SLEN] == 0);
  size_t n = 0; while (IN.s[n]) n++;
  struct String* out = new_raw(String);
  int pos0 = 0;
#ifdef WITH_PREFIX
  pos0 = print_to(out, 0, "#"); V_ASSERT(pos0 == 1, "one prefix character written");
#endif
  int p1 = show_to($S((char*)IN.s), out, pos0);
  V_WITNESS("shown");
  size_t outlen = 0; while (out->val[outlen]) outlen++;
  V_ASSERT((size_t)p1 == outlen && p1 >= pos0 + 2 + (int)n, "show returns the position after the characters it wrote");
#ifdef TWO
  int p2 = print_to(out, p1, ",");
  int p3 = show_to($S((char*)IN.t), out, p2);
#endif
  struct String* back = new_raw(String);
  int q1 = look_from(back, out, pos0);
  V_ASSERT(q1 == p1, "look consumes exactly the characters show wrote");
  _Bool same = 1; for (size_t i = 0; i <= SLEN; i++) { if ((unsigned char)back->val[i] != IN.s[i]) same = 0; if (IN.s[i] == 0) break; }
  V_ASSERT(same, "the String read back by look equals the String shown (quotes, backslashes, control characters included)");
  V_ASSERT(eq(back, $S((char*)IN.s)), "eq agrees");
#ifdef TWO
  struct String* back2 = new_raw(String);
  int q3 = look_from(back2, out, p2);
  same = 1; for (size_t i = 0; i <= SLEN; i++) { if ((unsigned char)back2->val[i] != IN.t[i]) same = 0; if (IN.t[i] == 0) break; }
  V_ASSERT(q3 == p3 && same, "a second value after a separator round-trips from its own start position");
#endif
  vcap_check();
}
#endif
