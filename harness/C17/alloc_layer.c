/* C17 / C01 / C06 / C19: the allocation layer's side of the collector's registry.  The real Alloc.c (alloc_by,
 * del_by, new_*_with, dealloc) with the collector replaced by a recorder of set / rem:
 *   alloc / new       : registered exactly once, as NOT root
 *   alloc_root / new_root : registered exactly once, AS ROOT
 *   alloc_raw / new_raw   : never registered
 *   del / del_root    : handed to the collector's rem exactly once (which finalises and frees, GC_Rem_Ptr),
 *                       not finalised a second time here
 *   del_raw           : destructed and freed here exactly once, collector not involved
 * for a plain struct type, a type with constructor/destructor (Int: no destructor, String: both).
 *   -DCASE=<n>                                                                                           */
#include "verif.h"
struct Inputs { int64_t v; unsigned char which; };
#ifndef V_REPLAY_INPUT_ONLY
#include "Cello.h"
#define set verif_gc_set
#define rem verif_gc_rem
#define current verif_current
void verif_gc_set(var gc, var key, var val); void verif_gc_rem(var gc, var key); var verif_current(var type);
#include "Alloc.c"    /* the real /repo/src/Alloc.c */
#undef set
#undef rem
#undef current
V_DECLARE_INPUTS
V_NO_THROW_EXPECTED
static uint64_t gc_token[4];
#define THE_GC ((var)&gc_token[3])
static int n_set = 0, n_rem = 0, n_cur_other = 0; static var set_key[2], rem_key[2]; static int64_t set_root[2]; static _Bool gc_ok = 1;
#ifdef CELLO_NGC
var verif_current(var type) { n_cur_other++; return THE_GC; }
#else
var verif_current(var type) { if (type != GC) n_cur_other++; return THE_GC; }
#endif
void verif_gc_set(var gc, var key, var val) { if (gc != THE_GC) gc_ok = 0; if (n_set < 2) { set_key[n_set] = key; set_root[n_set] = c_int(val); } n_set++; }
void verif_gc_rem(var gc, var key) { if (gc != THE_GC) gc_ok = 0; if (n_rem < 2) rem_key[n_rem] = key; n_rem++; }
struct Pt { int64_t x, y; };
static int pt_destructs = 0;
static void Pt_Del(var self) { pt_destructs++; }
static var Pt = Cello(Pt, Instance(New, NULL, Pt_Del));
V_HARNESS {
  V_LOAD_INPUTS();
  int kind = IN.which % 3;     /* 0 standard, 1 root, 2 raw */
#if CASE == 1      /* bare allocation */
  var p = kind == 0 ? alloc(Pt) : kind == 1 ? alloc_root(Pt) : alloc_raw(Pt);
#else              /* construction */
  var p = kind == 0 ? new(Int, $I(IN.v)) : kind == 1 ? new_root(Int, $I(IN.v)) : new_raw(Int, $I(IN.v));
  V_ASSERT(c_int(p) == IN.v, "constructed from its argument");
#endif
  V_WITNESS("allocated");
#if CELLO_ALLOC_CHECK == 1
  V_ASSERT(p != NULL && header(p)->alloc == (var)AllocHeap, "a heap object");
#endif
#ifdef CELLO_NGC
  V_ASSERT(n_set == 0 && n_rem == 0, "without a collector (CELLO_NGC) nothing is registered");
  if (0) {
#else
  if (kind == 2) V_ASSERT(n_set == 0, "raw allocations are never registered with the collector");
  else {
#endif
    V_ASSERT(n_set == 1 && set_key[0] == p && gc_ok, "a managed allocation is registered with the current collector exactly once, under its own address");
    V_ASSERT(set_root[0] == (kind == 1 ? 1 : 0), "it is recorded with the root flag it was allocated with (root for alloc_root/new_root only)");
  }
  V_ASSERT(n_rem == 0, "allocation removes nothing");
#if CASE == 1
  /* deletion */
  if (kind == 0) del(p); else if (kind == 1) del_root(p); else del_raw(p);
#ifdef CELLO_NGC
  V_ASSERT(n_rem == 0 && pt_destructs == 1, "without a collector every del variant finalises the object here, exactly once");
#else
  if (kind == 2) V_ASSERT(n_rem == 0 && pt_destructs == 1, "del_raw finalises here, exactly once, without the collector");
  else V_ASSERT(n_rem == 1 && rem_key[0] == p && gc_ok && pt_destructs == 0, "del / del_root hand the object to the collector (which finalises and frees it) exactly once and do not finalise it a second time");
#endif
#endif
}
#endif
