/* C17 / C06 / C01: the real GC.c (registry, mark, sweep) from an ARBITRARY valid registry state.
 *   registry : NS slots, arbitrary occupancy / probe layout / root flags (inductive steps as for Table)
 *   objects  : NC managed cells, each its own object: header + two pointer-sized words (plain struct,
 *              no Mark instance => GC_Recurse scans it conservatively)
 *   hashing  : calls to GC_Hash are redirected to an arbitrary function of the cell (GH[]); the address
 *              pattern of real allocations is thereby arbitrary (collisions modulo every registry size);
 *              GC_Hash itself is checked to be a function of the address in OP_HASH
 *   finalise : destruct/dealloc are a ledger; destruct of an OWNER cell re-enters the collector with
 *              rem(gc, owned) exactly as Box_Del does
 *   rehash   : GC_Rehash is stubbed inside set/rem/sweep steps and discharged on its own (OP_REHASH)
 *   -DNS= -DNC= -DOP= [-DHOME=]                                                                   */
#include "verif.h"
#define OP_SET 1
#define OP_MEM 2
#define OP_REM 3
#define OP_SWEEP 4
#define OP_MARK 5
#define OP_REHASH 6
#define OP_HASH 7
#define OP_COLLECT 8
#define OP_MARK_ITEM 9
#define OP_RECURSE 10
#define OP_MARK_TOP 11
#define OP_SWEEP_OWN 12
#define OP_REM_PENDING 13
#define OP_MARK_AND_RECURSE 14
#define OP_RECURSE_HOLDER 15
#ifndef NS
#define NS 5
#endif
#ifndef NC
#define NC 4
#endif
#ifndef NK
#define NK 2      /* fake stack words */
#endif
struct Inputs {
  unsigned char occ[NS]; unsigned char cell[NS]; uint64_t home[NS]; unsigned char root[NS]; unsigned char marked[NS];
  uint64_t GH[NC]; signed char w0[NC], w1[NC]; signed char own[NC]; signed char stk[NK]; unsigned char dir;
  unsigned char c; unsigned char isroot; unsigned char running; uint64_t mitems;
};
#ifndef V_REPLAY_INPUT_ONLY
#include "Cello.h"
#define type_of verif_type_of
#define destruct verif_destruct
#define dealloc verif_dealloc
#define current verif_current
#define volatile
#define memset verif_memset_w
#define memcpy verif_memcpy_w
#define realloc verif_realloc_fl
#define free verif_free_fl
#define calloc verif_calloc_rh
void* verif_calloc_rh(size_t, size_t);
var verif_type_of(var); var verif_destruct(var); void verif_dealloc(var); var verif_current(var);
void* verif_memset_w(void*, int, size_t); void* verif_memcpy_w(void*, const void*, size_t); void* verif_realloc_fl(void*, size_t); void verif_free_fl(void*);
#include "GC.c"     /* the real /repo/src/GC.c, built with -DCELLO_VERIF (stack-segment hook) */
#undef type_of
#undef destruct
#undef dealloc
#undef current
#undef volatile
#undef memset
#undef memcpy
#undef realloc
#undef free
#undef calloc
/* GC.c clears and moves whole registry entries (3 words): words-only models, alignment asserted */
void* verif_memset_w(void* d, int c, size_t n) { V_ASSERT(n % 8 == 0 && c == 0, "harness: whole zeroed words"); for (size_t i = 0; i < n / 8; i++) ((uint64_t*)d)[i] = 0; return d; }
void* verif_memcpy_w(void* d, const void* s, size_t n) { V_ASSERT(n % 8 == 0, "harness: whole words"); for (size_t i = 0; i < n / 8; i++) { ((void**)d)[i] = ((void* const*)s)[i]; ((uint64_t*)d)[i] = ((const uint64_t*)s)[i]; } return d; }
/* the pending-free list: one static buffer, requested size recorded (writes beyond it are checked) */
static var FLBUF[NS + 2]; static size_t fl_req = 0; static int fl_live = 0, fl_frees = 0;
void* verif_realloc_fl(void* p, size_t n) { V_ASSERT(p == NULL && !fl_live, "sweep allocates its list once"); V_ASSERT(n <= NS * sizeof(var), "free list sized by the number of registered objects"); fl_req = n; fl_live = 1; return FLBUF; }
/* the registry's slot arrays: ENT is the (arbitrary) current one, ENT2 the one GC_Rehash allocates (OP_REHASH) */
#ifndef NS2
#define NS2 1
#endif
static struct GCEntry ENT[NS]; static struct GCEntry ENT2[NS2]; static int rh_allocs = 0, rh_old_frees = 0; static size_t rh_req = 0;
void* verif_calloc_rh(size_t n, size_t sz) { V_ASSERT(sz == sizeof(struct GCEntry) && n == NS2 && rh_allocs == 0, "rehash allocates the new slot array once, of the requested size"); rh_allocs++; rh_req = n;
  for (size_t i = 0; i < NS2; i++) { ENT2[i].ptr = NULL; ENT2[i].hash = 0; ENT2[i].root = 0; ENT2[i].marked = 0; } return ENT2; }
void verif_free_fl(void* p) { if (p == NULL) return; if (p == (void*)ENT) { rh_old_frees++; return; } V_ASSERT(p == (void*)FLBUF && fl_live, "free of the live list, once"); fl_live = 0; fl_frees++; }
V_DECLARE_INPUTS

/* ---- managed cells ---- */
struct Cell { var a; var b; };
static var Cell = Cello(Cell);
#define CW ((sizeof(struct Header) + sizeof(struct Cell)) / 8)
/* PADMASK: bit i set = cell i sits one word further into its buffer, i.e. at a pointer-aligned address that is
 * NOT of the form "16-byte boundary + header" malloc would give (objects from a type's own Alloc instance, or
 * registered by hand, are only pointer-aligned) */
#ifndef PADMASK
#define PADMASK 0
#endif
static uint64_t C0[CW + 1], C1[CW + 1], C2[CW + 1], C3[CW + 1], C4[CW + 1], C5[CW + 1];
static uint64_t* const CBUF[6] = { C0, C1, C2, C3, C4, C5 };
#define CPAD(i) ((((PADMASK) >> (i)) & 1) ? 8 : 0)
static var cell_at(long i) { return i < 0 ? NULL : (var)((char*)CBUF[i] + CPAD(i) + sizeof(struct Header)); }
static long cell_index(var p) { for (long i = 0; i < NC; i++) if (p == cell_at(i)) return i; return -1; }
static uint64_t JUNK[2];     /* something that is not a managed object */
static int finalised[NC], freed[NC]; static int order_ok = 1;
static struct GC* G;

/* a second cell type with a Mark instance (as Tuple, Array, List, Table, Tree have): it reports its first word */
struct Holder { var a; var b; };
static void Holder_Mark(var self, var gc, void(*f)(var,void*)) { struct Cell* x = self; if (x->a != NULL) f(gc, x->a); }
static var Holder = Cello(Holder, Instance(Mark, Holder_Mark));
static var holder_ptr = NULL;
#if defined(OP) && OP == 15   /* OP_RECURSE_HOLDER: the object operated on is the Holder, every object entered below it a plain Cell
                               * (an unregistered Holder containing itself is assumed away there) -- decided by call order so that it folds */
var verif_type_of(var p) { V_ASSERT(cell_index(p) >= 0, "collector inspects only managed cells"); if (p != NULL && holder_ptr != NULL) { V_ASSERT(p == holder_ptr, "harness: first object entered is the holder"); holder_ptr = NULL; return Holder; } return Cell; }
#else
var verif_type_of(var p) { V_ASSERT(cell_index(p) >= 0, "collector inspects only managed cells"); return Cell; }
#endif
var verif_current(var type) { return NULL; }     /* no thread-local storage in this harness: mark(NULL, ...) is a no-op */
var verif_destruct(var p) {
  long i = cell_index(p);
  V_ASSERT(i >= 0, "destruct of a managed cell");
  if (i >= 0) {
    finalised[i]++;
    if (freed[i]) order_ok = 0;
#if defined(OP) && OP == 12     /* OP_SWEEP_OWN: the edge is fixed (cell 0 owns cell 1) so that the re-entrant removal folds */
    { static int in_owner_del = 0;     /* the owner's destructor runs its del(owned) once; a nested destruct does not re-enter (keeps the unrolling finite) */
      if (i == 0 && !in_owner_del) { in_owner_del = 1; GC_Rem(G, cell_at(1)); in_owner_del = 0; } }
#elif !defined(NO_OWNERSHIP)
    if (IN.own[i] >= 0 && IN.own[i] < NC && IN.own[i] != i) GC_Rem(G, cell_at(IN.own[i]));   /* Box_Del: del(owned) -> rem(current(GC), owned) */
#endif
  }
  return p;
}
void verif_dealloc(var p) { long i = cell_index(p); V_ASSERT(i >= 0, "dealloc of a managed cell"); if (i >= 0) { if (!finalised[i]) order_ok = 0; freed[i]++; } }
static var probe_ptr = NULL; static uint64_t probe_hash = 0;    /* the pointer operated on may get a CONSTANT hash (case split on its home slot) */
uint64_t verif_gc_hash(var p) { if (p == probe_ptr) return probe_hash; long i = cell_index(p); return i >= 0 ? IN.GH[i] : IN.mitems; /* foreign pointers hash arbitrarily */ }
static int rehash_calls = 0; static size_t rehash_size = 0;
void verif_gc_rehash_stub(struct GC* gc, size_t n) { rehash_calls++; rehash_size = n; }
/* GC_Rehash's callee: every insertion into the new slot array is GC_Set_Ptr, whose contract (from ANY valid
 * registry: the entry is added with the root flag given, nothing else changes, layout stays valid) is what the
 * set.home* obligations decide; inside OP_REHASH it is a recorder */
static var rh_ptr[NS + 1]; static _Bool rh_root[NS + 1]; static int rh_calls = 0; static int rh_bad_table = 0;
void verif_set_ptr_stub(struct GC* gc, var ptr, _Bool root) {
  if (rh_calls <= NS) { rh_ptr[rh_calls] = ptr; rh_root[rh_calls] = root; }
  if (gc->entries != ENT2 || gc->nslots != NS2) rh_bad_table++;     /* insertions must go to the new array, with the new size already in place */
  rh_calls++;
}
static int mark_calls = 0, sweep_calls = 0;
void verif_mark_stub(struct GC* gc) { mark_calls++; }
void verif_sweep_stub(struct GC* gc) { sweep_calls++; }
/* mark phase, decomposed (assume-guarantee): GC_Mark_Item and GC_Recurse call each other once per level of
 * the heap graph; unrolling that recursion multiplies by the probe-loop length at every level.  Each of the
 * three functions is checked against its contract with its callee replaced by a recorder:
 *   GC_Mark_Item(p): if p is a registered, unmarked object: mark it and recurse into it exactly once; otherwise nothing
 *   GC_Recurse(p)  : hands every pointer-sized word of a plain object to GC_Mark_Item
 *   GC_Mark        : marks every unmarked root and recurses into it; hands every stack word to GC_Mark_Item
 * By induction on path length these give: everything reachable from a root or a stack word is marked, and
 * the recursion ends (an object is entered only on its unmarked->marked transition). */
#define MAXCALLS 12
static var rec_recurse[MAXCALLS]; static int n_recurse = 0;
static var rec_item[MAXCALLS]; static int n_item = 0;
static int recurse_before_mark = 0;
void verif_recurse_stub(struct GC* gc, var p) {
  if (n_recurse < MAXCALLS) rec_recurse[n_recurse] = p; n_recurse++;
  /* the object must already carry its mark when it is entered: otherwise a cycle re-enters it for ever */
  _Bool marked = 0;
  for (size_t i = 0; i < NS; i++) if (gc->entries[i].hash != 0 && gc->entries[i].ptr == p && gc->entries[i].marked) marked = 1;
  if (!marked) recurse_before_mark++;
}
void verif_item_stub(void* gc, void* p) { if (n_item < MAXCALLS) rec_item[n_item] = p; n_item++; }
static uint64_t STK[NK + 2];
var cello_verif_stack_top(var top) { return IN.dir ? (var)&STK[NK] : (var)&STK[1]; }


#if NS == 1
#define MAXN 0
#define NS_UP 5
#define NS_DOWN 0
#define MAXN_BELOW (-1)
#elif NS == 5
#define MAXN 4
#define NS_UP 11
#define NS_DOWN 1
#define MAXN_BELOW 0
#elif NS == 11
#define MAXN 9
#define NS_UP 23
#define NS_DOWN 5
#define MAXN_BELOW 4
#endif

static _Bool reg_find(struct GC* gc, size_t ns, long c, size_t* at) {
  for (size_t i = 0; i < ns; i++) if (gc->entries[i].hash != 0 && gc->entries[i].ptr == cell_at(c)) { *at = i; return 1; }
  return 0;
}
static _Bool inv(struct GC* gc, size_t ns, _Bool marks_clear) {
  size_t occ = 0;
  if (gc->nslots != ns) return 0;
  for (size_t i = 0; i < ns; i++) {
    uint64_t h = gc->entries[i].hash;
    if (h == 0) continue;
    occ++;
    long c = cell_index(gc->entries[i].ptr);
    if (c < 0) return 0;
    if (h != (IN.GH[c] < ns ? IN.GH[c] : IN.GH[c] % ns) + 1) return 0;
    uint64_t p = GC_Probe(gc, i, h);
    for (size_t d = 0; d < ns; d++) {
      if (d >= p) break;
      size_t j = h - 1 + d; if (j >= ns) j -= ns;
      uint64_t hj = gc->entries[j].hash;
      if (hj == 0) return 0;
      if (GC_Probe(gc, j, hj) < d) return 0;
    }
    for (size_t j = 0; j < ns; j++) if (j != i && gc->entries[j].hash != 0 && gc->entries[j].ptr == gc->entries[i].ptr) return 0;
    if ((uintptr_t)gc->entries[i].ptr < gc->minptr || (uintptr_t)gc->entries[i].ptr > gc->maxptr) return 0;
    if (marks_clear && gc->entries[i].marked) return 0;
  }
  return occ == gc->nitems;
}
static struct GC* arbitrary_gc(void) {
  static struct { struct Header h; struct GC g; } gobj;
  struct GC* gc = header_init(&gobj.h, GC, AllocHeap);
  gc->entries = ENT; gc->nslots = NS; gc->running = true; gc->freelist = NULL; gc->freenum = 0;
  gc->minptr = UINTPTR_MAX; gc->maxptr = 0; gc->bottom = IN.dir ? (var)&STK[1] : (var)&STK[NK];
  size_t n = 0;
  for (size_t i = 0; i < NS; i++) {
    ENT[i].ptr = NULL; ENT[i].hash = 0; ENT[i].root = 0; ENT[i].marked = 0;
    if (IN.occ[i]) {
      V_ASSUME(IN.cell[i] < NC && IN.home[i] >= 1 && IN.home[i] <= NS);
      ENT[i].ptr = cell_at(IN.cell[i]); ENT[i].hash = IN.home[i]; ENT[i].root = IN.root[i] ? 1 : 0; ENT[i].marked = IN.marked[i] ? 1 : 0;
      n++;
    }
  }
  for (long c = 0; c < NC; c++) {           /* minptr/maxptr cover every address ever registered (they only widen) */
    V_ASSUME(IN.GH[c] < NS * 11);
    header_init((char*)CBUF[c] + CPAD(c), Cell, AllocHeap);
    gc->minptr = (uintptr_t)cell_at(c) < gc->minptr ? (uintptr_t)cell_at(c) : gc->minptr;
    gc->maxptr = (uintptr_t)cell_at(c) > gc->maxptr ? (uintptr_t)cell_at(c) : gc->maxptr;
  }
  gc->nitems = n; gc->mitems = IN.mitems;
  V_ASSUME(n <= MAXN);
  G = gc;
  return gc;
}
/* heap graph: word w of cell c points to a cell, to junk, or is NULL */
static var target(signed char t) { return t >= 0 && t < NC ? cell_at(t) : t == -2 ? (var)&JUNK[0] : NULL; }
static void build_graph(void) {
  for (long c = 0; c < NC; c++) { struct Cell* x = cell_at(c); x->a = target(IN.w0[c]); x->b = target(IN.w1[c]); }
  for (int k = 0; k < NK; k++) STK[1 + k] = (uint64_t)target(IN.stk[k]);
  STK[0] = 0; STK[NK + 1] = 0;
}
V_NO_THROW_EXPECTED

V_HARNESS {
  V_LOAD_INPUTS();
  V_ASSUME(IN.c < NC);
#ifdef CC
  V_ASSUME(IN.c == CC);
  long c = CC; var pc = cell_at(CC);       /* case split on the cell operated on */
#else
  long c = IN.c; var pc = cell_at(c);
#endif
#if OP == OP_HASH
  /* GC_Hash is a function of the address alone, distinct for distinct 8-aligned addresses */
  V_WITNESS("hash evaluated");
  V_ASSERT(GC_Hash(pc) == GC_Hash(cell_at(c)) && GC_Hash(pc) == ((uintptr_t)pc >> 3), "GC_Hash(p) is p >> 3");
  V_ASSERT(c == 0 || GC_Hash(pc) != GC_Hash(cell_at(0)), "distinct managed addresses hash differently before the modulo");
#else
  struct GC* gc = arbitrary_gc();
  size_t n = gc->nitems;
  size_t at = 0; _Bool c_in = reg_find(gc, NS, c, &at);
  _Bool pre_reg[NC], pre_root[NC], pre_mark[NC];
  for (long i = 0; i < NC; i++) { size_t p = 0; pre_reg[i] = reg_find(gc, NS, i, &p); pre_root[i] = pre_reg[i] && gc->entries[p].root; pre_mark[i] = pre_reg[i] && gc->entries[p].marked; }
#ifdef HOME
  V_ASSUME(IN.GH[c] == HOME);
  probe_ptr = pc; probe_hash = HOME;
#endif

#if OP == OP_SET
  /* registration of a freshly allocated object (never already present: malloc returns a new address) */
  V_ASSUME(inv(gc, NS, 1) && !c_in);
  GC_Set(gc, pc, $I(IN.isroot ? 1 : 0));
  V_WITNESS("set completed");
  V_ASSERT(inv(gc, NS, 1), "set: registry invariant preserved");
  V_ASSERT(gc->nitems == n + 1, "set: count increases by one");
  V_ASSERT(rehash_calls == (n + 1 > MAXN ? 1 : 0) && (n + 1 <= MAXN || rehash_size == NS_UP), "set: growth rehash requested exactly at the load limit, to the next size");
  V_ASSERT((mark_calls == 1 && sweep_calls == 1) == (n + 1 > IN.mitems) && mark_calls == sweep_calls, "set: a collection runs exactly when the threshold is exceeded");
  for (long i = 0; i < NC; i++) {
    size_t p = 0; _Bool r = reg_find(gc, NS, i, &p);
    if (i == c) V_ASSERT(r && gc->entries[p].root == (IN.isroot ? 1 : 0) && !gc->entries[p].marked && GC_Mem_Ptr(gc, pc), "set: the object is registered once with the root flag it was allocated with");
    else V_ASSERT(r == pre_reg[i] && (!r || gc->entries[p].root == pre_root[i]), "set: every other registration and its root flag is untouched (also when displaced)");
  }
#elif OP == OP_MEM
  V_ASSUME(inv(gc, NS, 0));
  _Bool m = GC_Mem_Ptr(gc, pc);
  V_WITNESS("mem computed");
  V_ASSERT(m == c_in, "mem(gc, p) holds exactly for registered objects");
  V_ASSERT(!GC_Mem_Ptr(gc, &JUNK[0]), "a pointer that was never registered is not a member");
#elif OP == OP_REM
  /* explicit del of a registered object (collector running) */
  V_ASSUME(inv(gc, NS, 1) && c_in && IN.own[c] == -1);
#ifdef STOPPED   /* known finding: explicit del while the collector is stopped */
  gc->running = false;
#endif
  GC_Rem(gc, pc);
  V_WITNESS("rem completed");
#ifdef STOPPED
  V_ASSERT(finalised[c] == 1 && freed[c] == 1 && order_ok && !GC_Mem_Ptr(gc, pc), "rem: the object is finalised once, then released once, and unregistered -- whether the collector is running or stopped");
  return;
#endif
  V_ASSERT(inv(gc, NS, 1), "rem: registry invariant preserved (backward shift)");
  V_ASSERT(gc->nitems == n - 1 && finalised[c] == 1 && freed[c] == 1 && order_ok, "rem: the object is finalised once, then released once, and unregistered");
  V_ASSERT(rehash_calls == ((int64_t)(n - 1) <= MAXN_BELOW ? 1 : 0), "rem: shrink rehash requested exactly when the contents fit the smaller size");
  for (long i = 0; i < NC; i++) {
    size_t p = 0; _Bool r = reg_find(gc, NS, i, &p);
    if (i == c) V_ASSERT(!r && !GC_Mem_Ptr(gc, pc), "rem: no longer a member");
    else V_ASSERT(r == pre_reg[i] && (!r || gc->entries[p].root == pre_root[i]) && finalised[i] == 0 && freed[i] == 0, "rem: every other object untouched");
  }
#elif OP == OP_SWEEP
  /* sweep for an ARBITRARY marking (= arbitrary reachability outcome) and arbitrary ownership edges */
  V_ASSUME(inv(gc, NS, 0));
  for (long i = 0; i < NC; i++) V_ASSUME(IN.own[i] >= -1 && IN.own[i] < NC && (IN.own[i] < 0 || (IN.own[IN.own[i]] < 0 && IN.own[i] != i)));   /* chains of length 1 */
#ifdef NO_OWNERSHIP
  for (long i = 0; i < NC; i++) V_ASSUME(IN.own[i] == -1);
#endif
  GC_Sweep(gc);
  V_WITNESS("sweep completed");
  V_ASSERT(inv(gc, NS, 1), "sweep: registry invariant holds afterwards, all marks cleared");
  V_ASSERT(order_ok, "sweep: nothing released before it was finalised");
  size_t left = 0;
  for (long i = 0; i < NC; i++) {
    size_t p = 0; _Bool r = reg_find(gc, NS, i, &p);
    _Bool dead = pre_reg[i] && !pre_mark[i] && !pre_root[i];
    _Bool owned_by_dead = 0;
    for (long o = 0; o < NC; o++) if (IN.own[o] == i && pre_reg[o] && !pre_mark[o] && !pre_root[o]) owned_by_dead = 1;
    if (!pre_reg[i]) V_ASSERT(finalised[i] == 0 && freed[i] == 0 && !r, "sweep: unregistered objects are not touched");
    else if (dead || owned_by_dead) V_ASSERT(finalised[i] == 1 && freed[i] == 1 && !r, "sweep: an unreachable (or owner-deleted) object is finalised exactly once, released exactly once and unregistered");
    else V_ASSERT(finalised[i] == 0 && freed[i] == 0 && r && gc->entries[p].root == pre_root[i], "sweep: marked and root objects survive untouched, root flag kept through compaction");
    if (r) left++;
  }
  V_ASSERT(gc->nitems == left && gc->mitems == left + left / 2 + 1, "sweep: count matches the survivors; next threshold recomputed");
  V_ASSERT(gc->freelist == NULL && gc->freenum == 0, "sweep: pending-free list released");
#elif OP == OP_MARK
  /* mark phase over an arbitrary heap graph: everything reachable from roots and the stack gets marked */
  V_ASSUME(inv(gc, NS, 1) && n > 0);
  build_graph();
  _Bool reach[NC];
  for (long i = 0; i < NC; i++) {
    reach[i] = pre_root[i];
    for (int k = 0; k < NK; k++) if (IN.stk[k] == i && pre_reg[i]) reach[i] = 1;
  }
  for (int round = 0; round < NC; round++)
    for (long i = 0; i < NC; i++) if (reach[i] && pre_reg[i]) {
      if (IN.w0[i] >= 0 && IN.w0[i] < NC && pre_reg[IN.w0[i]]) reach[IN.w0[i]] = 1;
      if (IN.w1[i] >= 0 && IN.w1[i] < NC && pre_reg[IN.w1[i]]) reach[IN.w1[i]] = 1;
    }
  GC_Mark(gc);
  V_WITNESS("mark completed");
  for (long i = 0; i < NC; i++) {
    size_t p = 0; _Bool r = reg_find(gc, NS, i, &p);
    V_ASSERT(r == pre_reg[i], "mark: registrations unchanged");
    if (r && reach[i]) V_ASSERT(gc->entries[p].marked || gc->entries[p].root, "mark: every object reachable from a root or the stack (through any chain, cycle or shared sub-object) is marked");
    if (r && !reach[i]) V_ASSERT(!gc->entries[p].marked, "mark: nothing unreachable is retained (precision on this graph)");
  }
  V_ASSERT(finalised[0] + finalised[1] + finalised[2] == 0, "mark finalises nothing");
#elif OP == OP_MARK_ITEM
  /* any pointer value: a managed cell (registered or not), junk, an unaligned or out-of-range address */
  V_ASSUME(inv(gc, NS, 0) && n > 0);
  var p = IN.isroot == 0 ? pc : IN.isroot == 1 ? (var)&JUNK[0] : IN.isroot == 2 ? (var)((char*)pc + 1) : NULL;
  if (p == pc) { probe_ptr = pc; probe_hash = IN.GH[c]; }
  _Bool was_marked = c_in && gc->entries[at].marked;
  GC_Mark_Item(gc, p);
  V_WITNESS("mark_item returned");
  for (long i = 0; i < NC; i++) {
    size_t q = 0; _Bool r = reg_find(gc, NS, i, &q);
    V_ASSERT(r == pre_reg[i] && (!r || gc->entries[q].root == pre_root[i]), "mark_item: registrations and root flags unchanged");
    if (r && !(p == pc && i == c)) V_ASSERT(gc->entries[q].marked == pre_mark[i], "mark_item: no other object's mark changes");
  }
  if (p == pc && c_in) {
    V_ASSERT(gc->entries[at].marked, "mark_item: a registered object reached by a pointer is marked");
    V_ASSERT(n_recurse == (was_marked ? 0 : 1) && (was_marked || rec_recurse[0] == pc), "mark_item: recurses into the object exactly once, on its unmarked->marked transition");
    V_ASSERT(recurse_before_mark == 0, "mark_item: the object is marked BEFORE it is entered (cycles and self-references terminate)");
  } else V_ASSERT(n_recurse == 0, "mark_item: unregistered, foreign, unaligned and NULL words are ignored");
#elif OP == OP_RECURSE
  build_graph();
  GC_Recurse(gc, pc);
  V_WITNESS("recurse returned");
  V_ASSERT(n_item == 2 && rec_item[0] == target(IN.w0[c]) && rec_item[1] == target(IN.w1[c]), "recurse: every pointer-sized word of a plain object is handed to the marker, in order, nothing else");
#elif OP == OP_MARK_AND_RECURSE
  /* the callback handed to every Mark instance (and used for thread-local storage): a REGISTERED object goes to
   * GC_Mark_Item alone (which enters it once, on its unmarked->marked transition: cycles through containers
   * terminate); an unregistered item (stored inline in its container) is entered directly */
  V_ASSUME(inv(gc, NS, 0) && n > 0);
  probe_ptr = pc; probe_hash = IN.GH[c];
  GC_Mark_And_Recurse(gc, pc);
  V_WITNESS("mark_and_recurse returned");
  if (c_in) V_ASSERT(n_item == 1 && rec_item[0] == pc && n_recurse == 0, "callback: a registered object is handed to the marker, once, and not entered a second time");
  else      V_ASSERT(n_item == 0 && n_recurse == 1 && rec_recurse[0] == pc, "callback: an unregistered (inline) item is entered exactly once");
#elif OP == OP_RECURSE_HOLDER
  /* GC_Recurse on an object whose type has a Mark instance: the item it reports must be treated as above --
   * registered: marked through GC_Mark_Item; inline: entered (its own words reach the marker) */
  V_ASSUME(inv(gc, NS, 0) && n > 0);
  build_graph();
  holder_ptr = pc;
  V_ASSUME(IN.w0[c] == DD);      /* case split on the item the holder reports */
  ((struct Cell*)pc)->a = cell_at(DD);
  { long d = DD; V_ASSUME(pre_reg[d] || d != c);     /* an UNREGISTERED object that contains itself is outside: nothing bounds that walk */
    GC_Recurse(gc, pc);
    V_WITNESS("recurse through a Mark instance returned");
    if (pre_reg[d]) V_ASSERT(n_item == 1 && rec_item[0] == cell_at(d), "a registered item reported by a Mark instance is handed to the marker (which marks and enters it once)");
    else V_ASSERT(n_item == 2 && rec_item[0] == target(IN.w0[d]) && rec_item[1] == target(IN.w1[d]), "an inline item reported by a Mark instance is entered: its own words reach the marker"); }
#elif OP == OP_MARK_TOP
  V_ASSUME(inv(gc, NS, 1) && n > 0);
  build_graph();
  GC_Mark(gc);
  V_WITNESS("mark returned");
  { int roots = 0, k = 0; _Bool ok = 1;
    for (size_t i = 0; i < NS; i++) if (gc->entries[i].hash != 0) {
      long ci = cell_index(gc->entries[i].ptr);
      if (gc->entries[i].root) { if (!gc->entries[i].marked) ok = 0; if (k >= MAXCALLS || rec_recurse[k] != gc->entries[i].ptr) ok = 0; k++; roots++; }
      else if (gc->entries[i].marked) ok = 0;
    }
    V_ASSERT(ok && n_recurse == roots, "mark: every root-registered object is marked and entered exactly once, nothing else is marked at the top level");
    V_ASSERT(recurse_before_mark == 0, "mark: a root is marked BEFORE it is entered (cycles through roots terminate)");
    V_ASSERT(n_item == NK, "mark: exactly the words of the stack segment between the current top and the recorded bottom are scanned");
    _Bool all = 1;
    for (int w = 0; w < NK; w++) { _Bool found = 0; for (int j = 0; j < NK; j++) if (j < n_item && rec_item[j] == (var)STK[1 + w]) found = 1; if (!found) all = 0; }
    V_ASSERT(all, "mark: every stack word reaches the marker (either stack direction)"); }
#elif OP == OP_REM_PENDING
  /* explicit del (as issued by an owner's destructor) WHILE A SWEEP IS IN PROGRESS: the registry has already been
   * compacted, the unreachable objects sit in the pending-free list (arbitrary subset of the unregistered cells,
   * some entries already processed = NULL).  The object deleted is either pending, or still registered, or neither. */
  V_ASSUME(inv(gc, NS, 0));
  { size_t fn = IN.mitems % (NS - 1); gc->freelist = (var*)FLBUF; gc->freenum = fn; fl_live = 1;
    _Bool pend[NC]; for (long i = 0; i < NC; i++) pend[i] = 0;
    for (size_t i = 0; i < NS - 1; i++) if (i < fn) {
      signed char w = IN.stk[i % NK] ; long ci = (IN.home[i] % (NC + 1)) - 1;         /* -1 = already processed (NULL) */
      if (ci >= 0) { V_ASSUME(!pre_reg[ci] && !pend[ci]); pend[ci] = 1; FLBUF[i] = cell_at(ci); } else FLBUF[i] = NULL;
    }
    var snapfl[NS]; for (size_t i = 0; i < NS - 1; i++) snapfl[i] = FLBUF[i];
    GC_Rem(gc, pc);
    V_WITNESS("rem during sweep completed");
    if (pend[c]) {
      V_ASSERT(finalised[c] == 1 && freed[c] == 1 && order_ok, "an object deleted while it waits in the pending-free list is finalised and released exactly once, there and then");
      _Bool blanked = 1, others = 1;
      for (size_t i = 0; i < NS - 1; i++) if (i < fn) { if (snapfl[i] == pc) { if (FLBUF[i] != NULL) blanked = 0; } else if (FLBUF[i] != snapfl[i]) others = 0; }
      V_ASSERT(blanked, "its pending-free entry is blanked, so the sweep will not finalise it a second time");
      V_ASSERT(others, "no other pending entry is touched");
      V_ASSERT(gc->nitems == n && inv(gc, NS, 0), "the registry is not touched (the object had already been unregistered by the sweep)");
    } else if (c_in) {
      V_ASSERT(finalised[c] == 1 && freed[c] == 1 && gc->nitems == n - 1, "a still registered object is unregistered, finalised and released exactly once");
    } else {
      V_ASSERT(finalised[c] == 0 && freed[c] == 0 && gc->nitems == n, "an object that is neither registered nor pending (already finalised by the sweep) is left alone");
    }
    for (long i = 0; i < NC; i++) if (i != c) V_ASSERT(finalised[i] == 0 && freed[i] == 0, "no other object is finalised");
  }
#elif OP == OP_SWEEP_OWN
  /* ownership inside a sweep, concrete layout: cell 0 (a Box-like owner) owns cell 1; both registered in adjacent
   * slots in either order (-DSWAP), both unreachable or only one of them (marks symbolic).  destruct(owner)
   * re-enters the collector with rem(gc, owned) exactly as Box_Del does. */
  {
    for (size_t i = 0; i < NS; i++) { gc->entries[i].ptr = NULL; gc->entries[i].hash = 0; gc->entries[i].root = 0; gc->entries[i].marked = 0; }
#ifdef SWAP
    long first = 1, second = 0;
#else
    long first = 0, second = 1;
#endif
    gc->entries[1].ptr = cell_at(first);  gc->entries[1].hash = 2; gc->entries[1].marked = IN.marked[0] & 1;
    gc->entries[2].ptr = cell_at(second); gc->entries[2].hash = 3; gc->entries[2].marked = IN.marked[1] & 1;
    gc->nitems = 2;
    V_ASSUME(IN.GH[first] == 1 && IN.GH[second] == 2);
    probe_ptr = cell_at(1); probe_hash = (first == 1) ? 1 : 2;      /* the owned object's hash is a constant: the nested removal's slot arithmetic folds */
    for (long i = 0; i < NC; i++) V_ASSUME(IN.own[i] == (i == 0 ? 1 : -1));
    V_ASSUME(inv(gc, NS, 0));
    _Bool owner_marked = first == 0 ? (IN.marked[0] & 1) : (IN.marked[1] & 1);
    _Bool owned_marked = first == 1 ? (IN.marked[0] & 1) : (IN.marked[1] & 1);
    GC_Sweep(gc);
    V_WITNESS("ownership sweep completed");
    V_ASSERT(order_ok, "nothing released before it was finalised");
    if (!owner_marked) {
      V_ASSERT(finalised[0] == 1 && freed[0] == 1, "the unreachable owner is finalised and released exactly once");
      V_ASSERT(finalised[1] == 1 && freed[1] == 1, "the object it owns is finalised and released exactly once -- whether it was queued by the same sweep or not, and whichever of the two sits first in the registry");
    } else {
      V_ASSERT(finalised[0] == 0 && freed[0] == 0, "a reachable owner survives");
      V_ASSERT(finalised[1] == (owned_marked ? 0 : 1) && freed[1] == finalised[1], "its pointee is reclaimed only if it was itself unreachable, exactly once");
    }
    size_t q = 0;
    V_ASSERT(!(finalised[0] && reg_find(gc, NS, 0, &q)) && !(finalised[1] && reg_find(gc, NS, 1, &q)), "finalised objects are no longer registered");
  }
#elif OP == OP_REHASH
  /* GC_Rehash(gc, NS2) from an arbitrary valid NS-slot registry.  Called by GC_Set before the new entry is
   * placed, by GC_Rem after a removal and by GC_Sweep at its end: marks are clear at all three.
   * REHASH_FULL: the real re-insertion loop (GC_Set_Ptr, uninterpreted address hash); otherwise GC_Set_Ptr is
   * the recorder above and the step decides what rehash itself adds: new zeroed array of the requested size,
   * every old entry handed over exactly once with ITS root flag, old array freed once, count untouched. */
  V_ASSUME(inv(gc, NS, 1));
  V_ASSUME(n < NS2);
  struct GCEntry before[NS];
  for (size_t i = 0; i < NS; i++) before[i] = ENT[i];
  GC_Rehash(gc, NS2);
  V_WITNESS("rehashed");
  V_ASSERT(rh_allocs == 1 && rh_old_frees == 1 && gc->entries == ENT2 && gc->nslots == NS2, "rehash installs a new slot array of the requested size and frees the old one exactly once");
  V_ASSERT(gc->nitems == n, "rehash leaves the item count alone");
#ifdef REHASH_FULL
  V_ASSERT(inv(gc, NS2, 1), "rehash rebuilds a valid robin-hood layout at the new size (no duplicate, stored home slots match the hash, probe order, count exact, marks clear)");
  for (long i = 0; i < NC; i++) {
    size_t q = 0; _Bool r = reg_find(gc, NS2, i, &q);
    V_ASSERT(r == pre_reg[i], "rehash neither loses nor invents an entry");
    V_ASSERT(!r || (gc->entries[q].root ? 1 : 0) == (pre_root[i] ? 1 : 0), "rehash keeps the root flag each object was registered with");
  }
  V_ASSERT(GC_Mem_Ptr(gc, pc) == c_in, "mem answers as before the rehash");
#else
  V_ASSERT(rh_calls == (int)n && rh_bad_table == 0, "rehash re-inserts exactly the registered entries, into the new array");
  { int k = 0;
    for (size_t i = 0; i < NS; i++) if (before[i].hash != 0) {
      V_ASSERT(k < rh_calls && rh_ptr[k] == before[i].ptr, "rehash hands over every registered pointer once");
      V_ASSERT(k < rh_calls && (rh_root[k] ? 1 : 0) == (before[i].root ? 1 : 0), "rehash keeps the root flag each object was registered with");
      k++;
    } }
#endif
#endif
#endif
}
#endif
