/* C20: the real File.c over the stdio contract model (lib/env_stdio.c), full real dispatch
 * (sopen/sclose/sread/swrite/sseek/stell/seof/sflush -> method -> File_*).
 *   OP_ROUNDTRIP : bytes written in two chunks, closed, reopened, read back in two chunks of different
 *                  sizes, and after seeking back; stell / seof against the model
 *   OP_LIFECYCLE : a symbolic sequence of K calls among {sopen, sclose, del-and-recreate, with-block,
 *                  swrite, sread, stell, sseek, sflush, seof}; every successful fopen is matched by exactly
 *                  one fclose; any operation on a File that is not open raises IOError before touching stdio */
#include "verif.h"
#ifndef NB
#define NB 4
#endif
#ifndef K
#define K 4
#endif
struct Inputs { unsigned char data[NB]; unsigned char c1, c2, r1; unsigned char op[K]; unsigned char failopen[K]; unsigned char failclose[K]; int64_t off; unsigned char whence; };
#ifndef V_REPLAY_INPUT_ONLY
#include "Cello.h"
V_DECLARE_INPUTS
extern unsigned char vf_content[]; extern size_t vf_size; extern int vf_opens, vf_closes, vf_fail_open, vf_fail_close;
int vf_open_streams(void); size_t vf_pos(FILE*); int vf_is_open(FILE*);
#define OP_ROUNDTRIP 1
#define OP_LIFECYCLE 2
static var expect_throw = NULL; static struct File* F; static FILE* handle_at_call; static int opens_at_call, closes_at_call;
void verif_on_throw(void* obj) {
  V_ASSERT(expect_throw != NULL, "operation raised an exception although its arguments are in contract");
  if (expect_throw == NULL) return;
  V_ASSERT(obj == expect_throw, "the documented exception (IOError) is raised");
  /* the state an exception leaves behind: ISO C closes the stream even when fclose reports an error, so a File whose
   * close failed must not keep the handle (a later sclose / del / sopen would touch a stale FILE*) */
  V_ASSERT(F == NULL || F->file == NULL || vf_is_open(F->file), "whatever fails, a File's handle is either cleared or still a live stream -- never a stale one");
  V_WITNESS_OPT("throw path reached");
}
V_HARNESS {
  V_LOAD_INPUTS();
  struct File* f = new_raw(File);
  F = f;
  V_ASSERT(f->file == NULL, "a new File without arguments is not open");
#if OP == OP_ROUNDTRIP
  size_t c1 = IN.c1, c2 = IN.c2, r1 = IN.r1;
  V_ASSUME(c1 + c2 == NB && r1 <= NB);
  sopen(f, $S("data.bin"), $S("wb"));
  V_ASSERT(f->file != NULL && vf_opens == 1, "sopen opens the stream");
  if (c1) V_ASSERT(swrite(f, IN.data, c1) == 1, "swrite reports one item written");
  V_ASSERT(stell(f) == (int64_t)c1, "stell after the first chunk");
  if (c2) V_ASSERT(swrite(f, IN.data + c1, c2) == 1, "second chunk written");
  V_ASSERT(stell(f) == NB && vf_size == NB, "stell equals the number of bytes written");
  sflush(f);
  sclose(f);
  V_ASSERT(f->file == NULL && vf_closes == 1 && vf_open_streams() == 0, "sclose closes the stream exactly once and forgets the handle");
  sopen(f, $S("data.bin"), $S("rb"));
  unsigned char back[NB + 1]; for (int i = 0; i <= NB; i++) back[i] = 0xEE;
  if (r1) V_ASSERT(sread(f, back, r1) == 1, "first read chunk complete");
  if (NB - r1) V_ASSERT(sread(f, back + r1, NB - r1) == 1, "second read chunk complete");
  V_WITNESS("round trip done");
  _Bool same = 1; for (int i = 0; i < NB; i++) if (back[i] != IN.data[i]) same = 0;
  V_ASSERT(same && back[NB] == 0xEE, "bytes read back are the bytes written, whatever the chunking (zero bytes included)");
  V_ASSERT(stell(f) == NB && !seof(f), "position at the end, end-of-file not yet signalled");
  unsigned char extra; V_ASSERT(sread(f, &extra, 1) == 0 && seof(f), "reading past the end returns nothing and sets end-of-file");
  /* seek back to an arbitrary offset and read the tail again */
  int64_t off = IN.off; V_ASSUME(off >= 0 && off <= NB);
  sseek(f, off, SEEK_SET);
  V_ASSERT(stell(f) == off && !seof(f), "sseek positions the stream; stell agrees with the C library's view");
  if (off < NB) { unsigned char one = 0; V_ASSERT(sread(f, &one, 1) == 1 && one == IN.data[off], "read after seek returns the byte at that offset"); }
  sseek(f, 0, SEEK_END); V_ASSERT(stell(f) == NB, "seek from the end");
  del_raw(f);
  V_ASSERT(vf_closes == 2 && vf_open_streams() == 0 && vf_opens == 2, "del closes the open stream exactly once");
#elif OP == OP_LIFECYCLE
  unsigned char buf[2] = { 1, 2 };
  for (int k = 0; k < K; k++) {
    _Bool is_open = f->file != NULL;
    V_ASSERT(is_open == (vf_open_streams() == 1) && vf_open_streams() <= 1, "the File's view (open/closed) agrees with the C library's");
    V_ASSERT(!is_open || vf_is_open(f->file), "an open File holds a live handle, never a stale one");
    vf_fail_open = IN.failopen[k] & 1; vf_fail_close = IN.failclose[k] & 1;
    int o0 = vf_opens, c0 = vf_closes;
    expect_throw = NULL;
#ifdef OPSEQ
    static const unsigned char seq_[] = { OPSEQ };    /* the operation sequence is fixed per obligation; failures, data and offsets stay symbolic */
    unsigned char op_k = seq_[k];
#else
    unsigned char op_k = IN.op[k] % 8;
#endif
    switch (op_k) {
      case 0: /* sopen: closes a previously open stream first; fopen failure -> IOError */
        if (vf_fail_open || (is_open && vf_fail_close)) expect_throw = IOError;
        sopen(f, $S("data.bin"), $S("w+b"));
        V_ASSERT(vf_opens == o0 + 1 && vf_closes == c0 + (is_open ? 1 : 0) && f->file != NULL, "sopen: previous stream closed once, new one open");
        break;
      case 1: /* sclose */
        if (!is_open || vf_fail_close) expect_throw = IOError;
        sclose(f);
        V_ASSERT(vf_closes == c0 + 1 && f->file == NULL, "sclose: closed exactly once");
        break;
      case 2: /* with-block: stop_in -> File_Close */
        if (!is_open || vf_fail_close) expect_throw = IOError;
        with (x in f) { V_ASSERT(x == (var)f, "with binds the File"); }
        V_ASSERT(vf_closes == c0 + 1 && f->file == NULL, "leaving a with block closes exactly once");
        break;
      case 3: if (!is_open) expect_throw = IOError; swrite(f, buf, 2); V_ASSERT(vf_opens == o0 && vf_closes == c0, "swrite neither opens nor closes"); break;
      case 4: if (!is_open) expect_throw = IOError; sread(f, buf, 1); break;
      case 5: if (!is_open) expect_throw = IOError; V_ASSERT(stell(f) == (int64_t)vf_pos(f->file), "stell agrees with the model"); break;
      case 6: if (!is_open) expect_throw = IOError; sseek(f, 0, SEEK_SET); sflush(f); break;
      case 7: if (!is_open) expect_throw = IOError; (void)seof(f); break;
    }
    V_ASSERT(expect_throw == NULL || (op_k <= 2 && is_open && !vf_fail_open), "an operation on a File that is not open must raise IOError");
  }
  V_WITNESS_OPT("lifecycle sequence done");
  vf_fail_close = 0;
  int c0 = vf_closes; _Bool was_open = f->file != NULL;
  del_raw(f);
  V_ASSERT(vf_closes == c0 + (was_open ? 1 : 0) && vf_open_streams() == 0 && vf_opens == vf_closes, "del closes an open stream once; every successful open was closed exactly once");
#endif
}
#endif
