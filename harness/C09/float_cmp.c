/* C09: Float cmp and predicates over all finite and infinite doubles (NaN excluded),
 * through the real dispatch: signed zeros, infinities, denormals included. */
#include "verif.h"
struct Inputs { double a, b, c; };
#ifndef V_REPLAY_INPUT_ONLY
#include "Cello.h"
V_DECLARE_INPUTS
V_NO_THROW_EXPECTED
static int sgn(int x) { return x < 0 ? -1 : x > 0 ? 1 : 0; }
static int order_ref(double a, double b) { return a < b ? -1 : a > b ? 1 : 0; }
V_HARNESS {
  V_LOAD_INPUTS();
  double a = IN.a, b = IN.b, c = IN.c;
  V_ASSUME(a == a && b == b && c == c);   /* NaN excluded by the property */
  var x = $F(a), y = $F(b), z = $F(c);
  int xy = cmp(x, y), yx = cmp(y, x), xx = cmp(x, x), yz = cmp(y, z), xz = cmp(x, z);
  V_WITNESS("Float cmp computed");
  V_ASSERT(sgn(xy) == order_ref(a, b), "Float: sign(cmp(a,b)) equals the numeric order of a and b");
  V_ASSERT(sgn(xy) == -sgn(yx), "Float: sign(cmp(a,b)) == -sign(cmp(b,a))");
  V_ASSERT(xx == 0, "Float: cmp(a,a) == 0");
  V_ASSERT(!(xy == 0) || a == b, "Float: cmp(a,b) == 0 only for equal values");
  V_ASSERT(!(xy <= 0 && yz <= 0) || xz <= 0, "Float: cmp is transitive");
  V_ASSERT(eq(x, y) == (a == b), "Float: eq is the == predicate");
  V_ASSERT(neq(x, y) == (a != b), "Float: neq is the != predicate");
  V_ASSERT(lt(x, y) == (a < b), "Float: lt is the < predicate");
  V_ASSERT(gt(x, y) == (a > b), "Float: gt is the > predicate");
  V_ASSERT(le(x, y) == (a <= b), "Float: le is the <= predicate");
  V_ASSERT(ge(x, y) == (a >= b), "Float: ge is the >= predicate");
}
#endif
