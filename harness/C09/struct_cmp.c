/* C09: a plain struct type without its own Cmp instance is ordered byte-wise (memcmp
 * over size(type) bytes); Type values are ordered by name. */
#include "verif.h"
struct Inputs { unsigned char a[16], b[16], c[16]; };
#ifndef V_REPLAY_INPUT_ONLY
#include "Cello.h"
V_DECLARE_INPUTS
V_NO_THROW_EXPECTED
struct Pt { unsigned char raw[16]; };
static var Pt = Cello(Pt);
static int sgn(int x) { return x < 0 ? -1 : x > 0 ? 1 : 0; }
static int order_ref(const unsigned char* a, const unsigned char* b) {
  for (int i = 0; i < 16; i++) if (a[i] != b[i]) return a[i] < b[i] ? -1 : 1;
  return 0;
}
V_HARNESS {
  V_LOAD_INPUTS();
  struct Pt* x = $(Pt); struct Pt* y = $(Pt); struct Pt* z = $(Pt);
  for (int i = 0; i < 16; i++) { x->raw[i] = IN.a[i]; y->raw[i] = IN.b[i]; z->raw[i] = IN.c[i]; }
  int xy = cmp(x, y), yx = cmp(y, x), xx = cmp(x, x), yz = cmp(y, z), xz = cmp(x, z);
  V_WITNESS("struct cmp computed");
  int r = order_ref(IN.a, IN.b);
  V_ASSERT(sgn(xy) == r, "struct: sign(cmp(a,b)) equals byte-wise order over size(type) bytes");
  V_ASSERT(sgn(xy) == -sgn(yx), "struct: antisymmetric");
  V_ASSERT(xx == 0, "struct: reflexive");
  V_ASSERT(!(xy <= 0 && yz <= 0) || xz <= 0, "struct: transitive");
  V_ASSERT(eq(x, y) == (r == 0) && neq(x, y) == (r != 0) && lt(x, y) == (r < 0) && gt(x, y) == (r > 0)
        && le(x, y) == (r <= 0) && ge(x, y) == (r >= 0), "struct: predicates derive from cmp");
  /* Type values: name order */
  V_ASSERT(cmp(Int, Int) == 0 && eq(Int, Int), "Type: cmp(T,T) == 0");
  V_ASSERT(cmp(Float, Int) < 0 && cmp(Int, Float) > 0, "Type: Float < Int by name");
  V_ASSERT(cmp(Int, String) < 0 && cmp(String, Int) > 0 && cmp(Float, String) < 0, "Type: Int < String by name, transitive with Float");
  V_ASSERT(cmp(Array, Table) < 0 && cmp(Table, Tree) < 0 && cmp(Tree, Tuple) < 0 && cmp(Array, Tuple) < 0, "Type: Array < Table < Tree < Tuple");
  V_ASSERT(lt(Float, Int) && gt(Int, Float) && le(Int, Int) && ge(Int, Int) && neq(Int, Float), "Type: predicates derive from cmp");
}
#endif
