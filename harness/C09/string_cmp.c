/* C09: String cmp vs byte-wise (unsigned char) lexicographic order, two free
 * NUL-terminated buffers of up to SLEN characters over the full byte range,
 * through the real dispatch (String_Cmp -> c_str -> strcmp model from ISO C). */
#include "verif.h"
#ifndef SLEN
#define SLEN 4
#endif
struct Inputs { unsigned char a[SLEN + 1], b[SLEN + 1], c[SLEN + 1]; };
#ifndef V_REPLAY_INPUT_ONLY
#include "Cello.h"
V_DECLARE_INPUTS
V_NO_THROW_EXPECTED
static int sgn(int x) { return x < 0 ? -1 : x > 0 ? 1 : 0; }
static int order_ref(const unsigned char* a, const unsigned char* b) {
  for (int i = 0; i <= SLEN; i++) {
    if (a[i] != b[i]) return a[i] < b[i] ? -1 : 1;
    if (a[i] == 0) return 0;
  }
  return 0;
}
V_HARNESS {
  V_LOAD_INPUTS();
  V_ASSUME(IN.a[SLEN] == 0 && IN.b[SLEN] == 0 && IN.c[SLEN] == 0);
  var x = $S((char*)IN.a), y = $S((char*)IN.b), z = $S((char*)IN.c);
  int xy = cmp(x, y), yx = cmp(y, x), xx = cmp(x, x), yz = cmp(y, z), xz = cmp(x, z);
  V_WITNESS("String cmp computed");
  int r = order_ref(IN.a, IN.b);
  V_ASSERT(sgn(xy) == r, "String: sign(cmp(a,b)) equals the unsigned byte-wise lexicographic order");
  V_ASSERT(sgn(xy) == -sgn(yx), "String: sign(cmp(a,b)) == -sign(cmp(b,a))");
  V_ASSERT(xx == 0, "String: cmp(a,a) == 0");
  V_ASSERT(!(xy <= 0 && yz <= 0) || xz <= 0, "String: cmp is transitive");
  V_ASSERT(eq(x, y) == (r == 0), "String: eq is the == predicate");
  V_ASSERT(neq(x, y) == (r != 0), "String: neq is the != predicate");
  V_ASSERT(lt(x, y) == (r < 0), "String: lt is the < predicate");
  V_ASSERT(gt(x, y) == (r > 0), "String: gt is the > predicate");
  V_ASSERT(le(x, y) == (r <= 0), "String: le is the <= predicate");
  V_ASSERT(ge(x, y) == (r >= 0), "String: ge is the >= predicate");
}
#endif
