/* C09 / C10 (container clauses): Array_Cmp, List_Cmp, Array_Hash, List_Hash of the real Array.c and List.c on two
 * sequences of lengths NLEN and MLEN (case split) with symbolic element values: cmp is the induced lexicographic
 * order with the shorter sequence first on a common prefix, across container kinds (Array vs List), antisymmetric;
 * hash is the XOR fold of the element hashes (so element-wise equal sequences of either kind hash equally). */
#include "verif.h"
#ifndef NLEN
#define NLEN 2
#endif
#ifndef MLEN
#define MLEN 2
#endif
#define L 3
struct Inputs { int64_t a[L]; int64_t b[L]; uint64_t H[4]; };
#ifndef V_REPLAY_INPUT_ONLY
#include "Cello.h"
#define eq verif_eq
#define cmp verif_cmp
#define hash verif_hash
#define assign verif_assign
#define destruct verif_destruct
#define swap verif_swap
var verif_assign(var, var); var verif_destruct(var); bool verif_eq(var, var); uint64_t verif_hash(var); int verif_cmp(var, var); void verif_swap(var, var);
#include "Array.c"
#include "List.c"
#undef eq
#undef cmp
#undef hash
#undef assign
#undef destruct
#undef swap
#define ELEM_D 4
#include "env_elem.h"
V_DECLARE_INPUTS
V_NO_THROW_EXPECTED
void verif_swap(var a, var b) { struct Elem t = *(struct Elem*)a; *(struct Elem*)a = *(struct Elem*)b; *(struct Elem*)b = t; }
static struct Array* mk_array(size_t n, const int64_t* v) {
  static struct { struct Header h; struct Array a; } box[2]; static int nb = 0; static uint64_t store[2][L * 5 + 1];
  struct Array* a = header_init(&box[nb].h, Array, AllocHeap);
  a->type = Elem; a->tsize = 16; a->nitems = n; a->nslots = n; a->data = n ? store[nb] : NULL; nb++;
  for (size_t i = 0; i < L; i++) if (i < n) { Array_Alloc(a, i); ((struct Elem*)Array_Item(a, i))->val = v[i]; ((struct Elem*)Array_Item(a, i))->tok = elem_issue(); }
  return a;
}
static struct List* mk_list(size_t n, const int64_t* v) {
  static struct { struct Header h; struct List l; } box; static uint64_t nodes[L][7];
  struct List* l = header_init(&box.h, List, AllocHeap);
  l->type = Elem; l->tsize = 16; l->nitems = n; l->head = NULL; l->tail = NULL;
  var prev = NULL;
  for (size_t i = 0; i < L; i++) if (i < n) {
    var it = header_init((char*)nodes[i] + 2 * sizeof(var), Elem, AllocData);
    ((struct Elem*)it)->val = v[i]; ((struct Elem*)it)->tok = elem_issue();
    *List_Prev(l, it) = prev; *List_Next(l, it) = NULL;
    if (prev) *List_Next(l, prev) = it; else l->head = it;
    prev = it; l->tail = it;
  }
  return l;
}
static int sgn(int x) { return x < 0 ? -1 : x > 0 ? 1 : 0; }
static int lex(const int64_t* a, size_t n, const int64_t* b, size_t m) {
  for (size_t i = 0; i < L; i++) { if (i >= n || i >= m) break; if (a[i] != b[i]) return a[i] < b[i] ? -1 : 1; }
  return n < m ? -1 : n > m ? 1 : 0;
}
V_HARNESS {
  V_LOAD_INPUTS();
  for (int i = 0; i < 4; i++) ELEM_H[i] = IN.H[i];
  for (int i = 0; i < L; i++) V_ASSUME(IN.a[i] >= 0 && IN.a[i] < ELEM_D && IN.b[i] >= 0 && IN.b[i] < ELEM_D);
  struct Array* x = mk_array(NLEN, IN.a);
  int want = lex(IN.a, NLEN, IN.b, MLEN);
#ifdef OTHER_LIST
  struct List* y = mk_list(MLEN, IN.b);
  int c1 = Array_Cmp(x, y), c2 = List_Cmp(y, x);
  uint64_t hy = List_Hash(y);
#else
  struct Array* y = mk_array(MLEN, IN.b);
  int c1 = Array_Cmp(x, y), c2 = Array_Cmp(y, x);
  uint64_t hy = Array_Hash(y);
#endif
  V_WITNESS("compared");
  V_ASSERT(sgn(c1) == want, "cmp of sequences is the lexicographic order over their elements, the shorter sequence first on a common prefix (also across container kinds)");
  V_ASSERT(sgn(c2) == -want, "sign(cmp(a,b)) == -sign(cmp(b,a))");
  V_ASSERT(Array_Cmp(x, x) == 0, "cmp(a,a) == 0");
  uint64_t hx = Array_Hash(x), rx = 0, ry = 0;
  for (size_t i = 0; i < L; i++) { if (i < NLEN) rx ^= IN.H[IN.a[i]]; if (i < MLEN) ry ^= IN.H[IN.b[i]]; }
  V_ASSERT(hx == rx && hy == ry, "hash of a sequence is the XOR fold of its element hashes");
  V_ASSERT(want != 0 || hx == hy, "element-wise equal sequences (of either kind) hash equally");
}
#endif
