/* C09: Int cmp and the six predicates, full 64-bit width, through the complete real
 * dispatch (cmp -> instance -> Type_Instance cache -> Type_Scan -> Int_Cmp -> c_int). */
#include "verif.h"
struct Inputs { int64_t a, b, c; };
#ifndef V_REPLAY_INPUT_ONLY
#include "Cello.h"
V_DECLARE_INPUTS
V_NO_THROW_EXPECTED
static int sgn(int x) { return x < 0 ? -1 : x > 0 ? 1 : 0; }
static int order_ref(int64_t a, int64_t b) { return a < b ? -1 : a > b ? 1 : 0; }
V_HARNESS {
  V_LOAD_INPUTS();
  int64_t a = IN.a, b = IN.b, c = IN.c;
#ifdef SMALL_DIFF
  /* known finding excluded: only pairs whose difference fits a 32-bit int */
  V_ASSUME(a >= -(1LL<<62) && a <= (1LL<<62) && b >= -(1LL<<62) && b <= (1LL<<62) && c >= -(1LL<<62) && c <= (1LL<<62));
  V_ASSUME(a - b >= -2147483647LL && a - b <= 2147483647LL);
  V_ASSUME(b - c >= -2147483647LL && b - c <= 2147483647LL);
  V_ASSUME(a - c >= -2147483647LL && a - c <= 2147483647LL);
#endif
  var x = $I(a), y = $I(b), z = $I(c);
  int xy = cmp(x, y), yx = cmp(y, x), xx = cmp(x, x), yz = cmp(y, z), xz = cmp(x, z);
  V_WITNESS("Int cmp computed");
  V_ASSERT(sgn(xy) == order_ref(a, b), "Int: sign(cmp(a,b)) equals the numeric order of a and b");
  V_ASSERT(sgn(xy) == -sgn(yx), "Int: sign(cmp(a,b)) == -sign(cmp(b,a))");
  V_ASSERT(xx == 0, "Int: cmp(a,a) == 0");
  V_ASSERT(!(xy == 0) || a == b, "Int: cmp(a,b) == 0 only for equal values");
  V_ASSERT(!(xy <= 0 && yz <= 0) || xz <= 0, "Int: cmp is transitive");
  V_ASSERT(eq(x, y) == (a == b), "Int: eq is the == predicate");
  V_ASSERT(neq(x, y) == (a != b), "Int: neq is the != predicate");
  V_ASSERT(lt(x, y) == (a < b), "Int: lt is the < predicate");
  V_ASSERT(gt(x, y) == (a > b), "Int: gt is the > predicate");
  V_ASSERT(le(x, y) == (a <= b), "Int: le is the <= predicate");
  V_ASSERT(ge(x, y) == (a >= b), "Int: ge is the >= predicate");
}
#endif
