/* C14: print_to_with (the real /repo/src/Show.c) on a SYMBOLIC format string of up to FL bytes that is
 * well formed by the property's grammar (literal text, %%, %[flags][width][.prec][length]conv), with
 * NARGS arguments of concrete types and symbolic payloads, arbitrary start position.
 * The sink is a recorder: format_to / show_to inside Show.c are bound to harness functions that log the
 * fragment text handed to the C formatting layer and the C value passed with it, and return an arbitrary
 * non-negative length (what vsnprintf / vfprintf would report).  An independent tokenizer in the harness
 * gives the expected fragment sequence.  Checked: fragments byte-identical to the specification text, in
 * order; value = c_int / c_float / c_str of the i-th argument, %$ -> show_to of the i-th argument once;
 * returned position = start + sum of lengths; too few arguments -> FormatError; no access outside the
 * format text or the fragment buffer (cbmc bounds/pointer checks; buffer is exactly strlen(fmt)+1).
 * What the C library prints for a fragment is outside this check (libc is trusted). */
#include "verif.h"
#ifndef FL
#define FL 5
#endif
#ifndef NARGS
#define NARGS 2
#endif
#define MAXFRAG (FL + 1)
struct Inputs { unsigned char fmt[FL + 1]; int64_t iv[3]; double fv; unsigned char sv[3]; int pos0; unsigned char rl[MAXFRAG]; unsigned char nargs; };
#ifndef V_REPLAY_INPUT_ONLY
#include "Cello.h"
/* calls to format_to / show_to are redirected to the recorders below with goto-instrument --replace-calls
 * (both are defined in Show.c itself and format_to is also a struct member name, so no macro renaming) */
#define malloc verif_malloc_fb
#define free verif_free_fb
/* argument access is environment too: the argument selected by a symbolic index is a merged pointer, and
 * dispatching on merged pointers explodes; the real len/get/c_int/c_float/c_str are exercised in C08/C09/C19 */
#define len verif_len
#define get verif_get
#define c_int verif_c_int
#define c_float verif_c_float
#define c_str verif_c_str
size_t verif_len(var); var verif_get(var, var); int64_t verif_c_int(var); double verif_c_float(var); char* verif_c_str(var);
int verif_format_to(var self, int pos, const char* fmt, ...); int verif_show_to(var self, var out, int pos);
void* verif_malloc_fb(size_t n); void verif_free_fb(void* p);
#include "Show.c"      /* the real /repo/src/Show.c */
#undef malloc
#undef free
#undef len
#undef get
#undef c_int
#undef c_float
#undef c_str
V_DECLARE_INPUTS

/* fragment buffer: fixed capacity, requested size remembered; accesses beyond the request are detected by a canary */
static char FB[FL + 4]; static size_t fb_req; static int fb_live = 0;
void* verif_malloc_fb(size_t n) { V_ASSERT(n <= FL + 1, "fragment buffer request is strlen(fmt)+1"); fb_req = n; fb_live = 1; for (size_t i = 0; i < FL + 4; i++) FB[i] = (char)0x5A; return FB; }
void verif_free_fb(void* p) { V_ASSERT(p == (void*)FB && fb_live, "fragment buffer freed once"); fb_live = 0; }

/* recorder */
struct Rec { int kind; unsigned char text[FL + 2]; int len; int argi; int pos; };   /* kind 0 literal/%%, 1 conversion, 2 show */
static struct Rec REC[MAXFRAG + 1]; static int nrec = 0; static var SINK; static var ARGS[3];
static int which_arg(var a) { for (int i = 0; i < 3; i++) if (a == ARGS[i]) return i; return -1; }
int verif_format_to(var self, int pos, const char* fmt, ...) {
  V_ASSERT(self == SINK, "output goes to the sink that was passed in");
  int k = nrec < MAXFRAG ? nrec : MAXFRAG; nrec++;
  int n = 0; while (n < FL + 1 && fmt[n]) { REC[k].text[n] = (unsigned char)fmt[n]; n++; }
  REC[k].text[n] = 0; REC[k].len = n; REC[k].pos = pos; REC[k].kind = 0; REC[k].argi = -1;
  char conv = n ? fmt[n - 1] : 0;
  if (n >= 2 && fmt[0] == '%' && !(n == 2 && fmt[1] == '%')) {
    va_list va; va_start(va, fmt);
    REC[k].kind = 1;
    if (conv == 's') { char* s = va_arg(va, char*); for (int i = 0; i < 3; i++) if (ARGS[i] && s == (char*)IN.sv && i == 2) REC[k].argi = 2; if (s != (char*)IN.sv) REC[k].argi = -2; }
    else if (conv == 'f' || conv == 'F' || conv == 'e' || conv == 'E' || conv == 'g' || conv == 'G' || conv == 'a' || conv == 'A') { double d = va_arg(va, double); REC[k].argi = (d == IN.fv || (d != d && IN.fv != IN.fv)) ? 1 : -2; }
    else if (conv == 'p') { var p = va_arg(va, var); REC[k].argi = which_arg(p); }
    else { int64_t v = va_arg(va, int64_t); REC[k].argi = v == IN.iv[0] ? 0 : -2; }
    va_end(va);
  }
  return IN.rl[k] % 8;          /* arbitrary number of characters produced */
}
int verif_show_to(var self, var out, int pos) {
  V_ASSERT(out == SINK, "%$ shows to the sink that was passed in");
  int k = nrec < MAXFRAG ? nrec : MAXFRAG; nrec++;
  REC[k].kind = 2; REC[k].argi = which_arg(self); REC[k].pos = pos; REC[k].len = 0;
  return pos + IN.rl[k] % 8;
}

static int NARGS_RT; static var ARGTUPLE;
size_t verif_len(var self) { V_ASSERT(self == ARGTUPLE, "len of the argument tuple"); return (size_t)NARGS_RT; }
var verif_get(var self, var key) { V_ASSERT(self == ARGTUPLE, "get on the argument tuple"); int64_t i = ((struct Int*)key)->val; V_ASSERT(i >= 0 && i < NARGS_RT, "argument index in range"); return ARGS[i < 0 ? 0 : i > 2 ? 2 : i]; }
int64_t verif_c_int(var a) { V_ASSERT(a == ARGS[0], "integer conversions take the Int argument"); return IN.iv[0]; }
double verif_c_float(var a) { V_ASSERT(a == ARGS[1], "floating conversions take the Float argument"); return IN.fv; }
char* verif_c_str(var a) { V_ASSERT(a == ARGS[2], "string conversions take the String argument"); return (char*)IN.sv; }

/* reference tokenizer of the grammar */
static int is_conv(unsigned char c) { const char* s = "diuoxXcsfFeEgGaAp$"; for (int i = 0; s[i]; i++) if ((unsigned char)s[i] == c) return 1; return 0; }
static int is_mid(unsigned char c) { const char* s = "-+ #0123456789.hlLqjzt"; for (int i = 0; s[i]; i++) if ((unsigned char)s[i] == c) return 1; return 0; }
struct Tok { int kind; int start, len; };     /* 0 literal, 3 percent-percent, 1 conversion */
static struct Tok TOK[MAXFRAG + 1]; static int ntok; static _Bool wellformed;
static void tokenize(const unsigned char* f, int n) {
  int i = 0; ntok = 0; wellformed = 1;
  while (i < n) {
    if (f[i] != '%') { int s = i; while (i < n && f[i] != '%') i++; TOK[ntok].kind = 0; TOK[ntok].start = s; TOK[ntok].len = i - s; ntok++; }
    else if (i + 1 < n && f[i + 1] == '%') { TOK[ntok].kind = 3; TOK[ntok].start = i; TOK[ntok].len = 2; ntok++; i += 2; }
    else { int s = i; i++; while (i < n && is_mid(f[i]) && !is_conv(f[i])) i++; if (i >= n || !is_conv(f[i])) { wellformed = 0; return; } i++; TOK[ntok].kind = 1; TOK[ntok].start = s; TOK[ntok].len = i - s; ntok++; }
  }
}
static var expect_throw = NULL;
void verif_on_throw(void* obj) {
  V_ASSERT(expect_throw != NULL, "formatting raised an exception although the format is well formed and has enough arguments");
  if (expect_throw == NULL) return;
  V_ASSERT(obj == expect_throw, "too few arguments raise FormatError");
  V_WITNESS_OPT("FormatError path reached");
}
V_HARNESS {
  V_LOAD_INPUTS();
  int n = 0; while (n < FL && IN.fmt[n]) n++;
  V_ASSUME(IN.fmt[FL] == 0);
  for (int i = n; i < FL; i++) V_ASSUME(IN.fmt[i] == 0);
  tokenize(IN.fmt, n);
  V_ASSUME(wellformed);
  V_ASSUME(IN.pos0 >= 0 && IN.pos0 < 1000);
  /* arguments: Int, Float, String in this order; the conversions in the format must fit their argument's kind */
  IN.sv[2] = 0;
  ARGS[0] = $I(IN.iv[0]); ARGS[1] = $F(IN.fv); ARGS[2] = $S((char*)IN.sv);
  int nargs = IN.nargs % 4;
  int nconv = 0;
  for (int t = 0; t < MAXFRAG; t++) if (t < ntok && TOK[t].kind == 1) {
    unsigned char c = IN.fmt[TOK[t].start + TOK[t].len - 1];
    if (nconv < 3 && c != '$' && c != 'p') {
      _Bool intc = (c == 'd' || c == 'i' || c == 'u' || c == 'o' || c == 'x' || c == 'X' || c == 'c');
      _Bool fltc = (c == 'f' || c == 'F' || c == 'e' || c == 'E' || c == 'g' || c == 'G' || c == 'a' || c == 'A');
      V_ASSUME((nconv == 0 && intc) || (nconv == 1 && fltc) || (nconv == 2 && c == 's'));    /* each argument formatted with a conversion of its own kind */
    }
    nconv++;
  }
  V_ASSUME(nconv <= 3);
  static uint64_t tupobj[4]; var args = &tupobj[3]; ARGTUPLE = args; NARGS_RT = nargs;
  static uint64_t sinkobj[4]; SINK = &sinkobj[3];
  if (nconv > nargs) expect_throw = FormatError;
  int ret = print_to_with(SINK, IN.pos0, (const char*)IN.fmt, args);
  V_WITNESS("print_to_with returned");
  V_ASSERT(nconv <= nargs, "too few arguments must raise FormatError");
  V_ASSERT(nrec == ntok, "one call to the formatting layer per token of the format string");
  int pos = IN.pos0; int ai = 0; _Bool ok = 1;
  for (int t = 0; t < MAXFRAG; t++) if (t < ntok && t < nrec) {
    if (REC[t].pos != pos) ok = 0;
    unsigned char c = IN.fmt[TOK[t].start + TOK[t].len - 1];
    if (TOK[t].kind == 1 && c == '$') { if (REC[t].kind != 2 || REC[t].argi != ai) ok = 0; ai++; pos = pos + IN.rl[t] % 8; }
    else {
      if (REC[t].kind != (TOK[t].kind == 1 ? 1 : 0) || REC[t].len != TOK[t].len) ok = 0;
      for (int i = 0; i < FL + 1; i++) if (i < TOK[t].len && REC[t].text[i] != IN.fmt[TOK[t].start + i]) ok = 0;
      if (TOK[t].kind == 1) { if (REC[t].argi != ai) ok = 0; ai++; }
      pos += IN.rl[t] % 8;
    }
  }
  V_ASSERT(ok, "each fragment handed to the C formatting layer is the specification text itself, in order, with the C value of the corresponding argument, at the running position");
  V_ASSERT(ret == pos, "returned position = start position + characters written");
  V_ASSERT(!fb_live, "fragment buffer released");
  for (size_t i = 0; i < FL + 4; i++) if (i >= fb_req) V_ASSERT(FB[i] == (char)0x5A, "no write beyond the fragment buffer");
}
#endif
