/* C04 (+C05, C11, C12, C19 clauses): one operation of the real Array.c from an ARBITRARY valid
 * state: arbitrary length n <= L, arbitrary spare capacity, arbitrary element values (duplicates
 * included), against a reference sequence kept by the harness.  Element callbacks are the probe
 * element (lib/env_elem.h); storage malloc/realloc/free are the fixed-capacity model
 * (lib/env_vcapw.c) so that lengths and indices can stay symbolic.
 *   -DL=<max length> -DOP=<operation>                                                          */
#include "verif.h"
#ifndef L
#define L 3
#endif
#ifndef NSPARE
#define NSPARE 0
#endif
#define LMAX (2 * L + 2)
struct Inputs { uint64_t n, slots; int64_t val[L]; int64_t idx; int64_t x; uint64_t m; int64_t oval[L]; uint64_t rs; };
#ifndef V_REPLAY_INPUT_ONLY
#define eq verif_eq
#define cmp verif_cmp
#define hash verif_hash
#define assign verif_assign
#define destruct verif_destruct
#define swap verif_swap
#define memmove verif_memmove_w
#define malloc vcw_malloc
#define realloc vcw_realloc
#define free vcw_free
#include "Cello.h"
var verif_assign(var, var); var verif_destruct(var); bool verif_eq(var, var); uint64_t verif_hash(var); int verif_cmp(var, var); void verif_swap(var, var);
void* verif_memmove_w(void*, const void*, size_t);
void* vcw_malloc(size_t); void* vcw_realloc(void*, size_t); void vcw_free(void*); size_t vcw_size(const void*); void vcw_check(void); int vcw_live(void);
#include "Array.c"   /* the real /repo/src/Array.c */
#undef eq
#undef cmp
#undef hash
#undef assign
#undef destruct
#undef swap
#undef memmove
#undef malloc
#undef realloc
#undef free
#define ELEM_D 4
#include "env_elem.h"
V_DECLARE_INPUTS
/* Array.c only moves whole records: a words-only memmove (alignment asserted) keeps cbmc away from the
 * byte-wise variants of the general model */
void* verif_memmove_w(void* dst, const void* src, size_t n) {
  V_ASSERT(n % 8 == 0, "harness: Array moves whole 8-byte words");
  size_t w = n / 8;
  if ((char*)dst <= (const char*)src) { for (size_t i = 0; i < w; i++) ((uint64_t*)dst)[i] = ((const uint64_t*)src)[i]; }
  else { for (size_t i = w; i > 0; i--) ((uint64_t*)dst)[i - 1] = ((const uint64_t*)src)[i - 1]; }
  return dst;
}
void verif_swap(var a, var b) { struct Elem t = *(struct Elem*)a; *(struct Elem*)a = *(struct Elem*)b; *(struct Elem*)b = t; }

#define OP_PUSH 1
#define OP_POP 2
#define OP_PUSH_AT 3
#define OP_POP_AT 4
#define OP_GETSET 5
#define OP_REM 6
#define OP_MEM 7
#define OP_CONCAT 8
#define OP_RESIZE 9
#define OP_SORT 10
#define OP_ITER 11
#define OP_ASSIGN 12
#define OP_DEL 13
#define OP_BAD_INDEX 14
#define OP_POP_EMPTY 15
#define OP_REM_ABSENT 16
#define OP_INIT 17
#define OP_MARK 18
#define OP_SHOW 19

static int64_t R[LMAX]; static size_t rn;        /* reference sequence */
static struct Elem* item(struct Array* a, size_t i) { return Array_Item(a, i); }

static _Bool valid(struct Array* a) {
  if (a->type != Elem || a->tsize != 16) return 0;
  if (a->nitems > a->nslots) return 0;
  if (vcw_size(a->data) < a->nslots * Array_Step(a)) return 0;   /* storage really holds nslots records */
  return 1;
}
static _Bool agrees(struct Array* a) {
  if (a->nitems != rn) return 0;
  for (size_t i = 0; i < LMAX; i++) if (i < rn && item(a, i)->val != R[i]) return 0;
  return 1;
}
static _Bool owns(struct Array* a, struct Array* b) {
  int seen[ELEM_MAXTOK]; for (int i = 0; i < ELEM_MAXTOK; i++) seen[i] = 0;
  int cnt = 0;
  for (size_t i = 0; i < LMAX; i++) if (i < a->nitems) {
    int64_t t = item(a, i)->tok;
    if (t <= 0 || t >= ELEM_MAXTOK || elem_tok_state[t] != 1 || seen[t]) return 0;
    if (header(item(a, i))->type != Elem) return 0;
#if CELLO_ALLOC_CHECK == 1
    if (header(item(a, i))->alloc != (var)AllocData) return 0;
#endif
    seen[t] = 1; cnt++;
  }
  if (b) for (size_t i = 0; i < LMAX; i++) if (i < b->nitems) {
    int64_t t = item(b, i)->tok;
    if (t <= 0 || t >= ELEM_MAXTOK || elem_tok_state[t] != 1 || seen[t]) return 0;
    seen[t] = 1; cnt++;
  }
  return cnt == elem_live_count();
}
static struct Array* arbitrary_array(uint64_t n, uint64_t slots, const int64_t* vals) {
  struct Array* a = alloc_raw(Array);
  a->type = Elem; a->tsize = 16;
  V_ASSUME(n <= L && slots >= n && slots <= n + n / 2 + 1);
#ifdef NLEN
  /* case split on the length (and spare capacity) of the pre-state: every NLEN in 0..L is its own obligation;
   * offsets and loop bounds inside the unit then fold, the index / values / other operand stay symbolic */
  if (vals == IN.val) { V_ASSUME(n == NLEN && slots == NLEN + NSPARE); n = NLEN; slots = NLEN + NSPARE; }
#endif
#ifdef MLEN
  if (vals == IN.oval) { V_ASSUME(n == MLEN && slots == MLEN); n = MLEN; slots = MLEN; }   /* length of the other operand */
#endif
  a->nitems = n; a->nslots = slots;
  a->data = slots ? vcw_malloc(slots * Array_Step(a)) : NULL;
  for (size_t i = 0; i < L; i++) if (i < n) {
    Array_Alloc(a, i);
    item(a, i)->val = vals[i]; item(a, i)->tok = elem_issue();
  }
  return a;
}

/* Show instance (C14: "for a container: its elements' own show text, each once, in iteration order"): print_to_with is
 * a recorder here (replace-calls).  Every call advances the position by one, so the value returned at the end also
 * shows that each call was given the position its predecessor returned. */
#define SHOW_MAX 24
static int show_n = 0; static int show_kind[SHOW_MAX]; static var show_a0[SHOW_MAX], show_a1[SHOW_MAX]; static int show_pos_ok = 1, show_next_pos = 0; static var show_out = NULL;
int v_print_rec(var out, int pos, const char* fmt, var args) {
  if (out != show_out || pos != show_next_pos) show_pos_ok = 0;
  int kind = 0;                                   /* 0 literal, 1 element ("%$" present), 2 separator ", " */
  for (int i = 0; i < 12 && fmt[i]; i++) if (fmt[i] == '%' && fmt[i + 1] == '$') kind = 1;
  if (fmt[0] == ',' && fmt[1] == ' ' && fmt[2] == 0) kind = 2;
  if (show_n < SHOW_MAX) { show_kind[show_n] = kind; struct Tuple* tp = args; show_a0[show_n] = tp->items[0]; show_a1[show_n] = (tp->items[0] != Terminal) ? tp->items[1] : Terminal; }
  show_n++; show_next_pos = pos + 1;
  return pos + 1;
}
static var mark_seen[LMAX]; static int mark_n = 0; static var mark_gc;
static void mark_rec(var gc, void* p) { V_ASSERT(gc == mark_gc, "the collector handle is passed through"); if (mark_n < LMAX) mark_seen[mark_n] = p; mark_n++; }
static var expect_throw = NULL; static struct Array* snap_a; static struct Array snap_struct; static uint64_t snap_words[LMAX * 5]; static int snap_live;
static void snapshot(struct Array* a) {
  snap_a = a; snap_struct = *a; snap_live = elem_live_count();
  for (size_t i = 0; i < LMAX * 5; i++) if (i * 8 < a->nitems * Array_Step(a)) snap_words[i] = ((uint64_t*)a->data)[i];
}
void verif_on_throw(void* obj) {
  V_ASSERT(expect_throw != NULL, "operation raised an exception although its arguments are in contract");
  if (expect_throw == NULL) return;
  V_ASSERT(obj == expect_throw, "the documented exception is raised (IndexOutOfBoundsError / ValueError)");
  if (obj != expect_throw) return;
  V_ASSERT(snap_a->nitems == snap_struct.nitems, "failed operation leaves the length unchanged");
  V_ASSERT(snap_a->type == snap_struct.type && snap_a->tsize == snap_struct.tsize && snap_a->nslots >= snap_a->nitems, "failed operation leaves the Array usable");
  _Bool same = 1;
  for (size_t i = 0; i < LMAX * 5; i++) if (i * 8 < snap_struct.nitems * Array_Step(snap_a) && snap_words[i] != ((uint64_t*)snap_a->data)[i]) same = 0;
  V_ASSERT(same, "failed operation leaves every element unchanged");
  V_ASSERT(snap_live == elem_live_count() && elem_ledger_ok, "failed operation finalises and constructs nothing");
  vcw_check();
  V_WITNESS_OPT("throw path reached");
}

V_HARNESS {
  V_LOAD_INPUTS();
  for (int i = 0; i < ELEM_D; i++) ELEM_H[i] = 0;
#if OP == OP_INIT
  /* base case: constructor with 0..2 initial elements */
  struct Array* a0 = new_raw(Array, Elem);
  V_ASSERT(a0->nitems == 0 && a0->nslots == 0 && a0->data == NULL && a0->type == Elem && a0->tsize == 16, "new empty Array is the empty valid state");
  struct Array* a2 = new_raw(Array, Elem, $(Elem, IN.val[0], 0), $(Elem, IN.val[1], 0));
  V_WITNESS("constructed");
  rn = 2; R[0] = IN.val[0]; R[1] = IN.val[1];
  V_ASSERT(valid(a2) && agrees(a2) && owns(a2, NULL), "new Array with two elements: valid, holds them in order, owns them");
#else
  struct Array* a = arbitrary_array(IN.n, IN.slots, IN.val);
  rn = a->nitems; for (size_t i = 0; i < L; i++) R[i] = IN.val[i];
  size_t n = rn;
  int64_t x = IN.x, idx = IN.idx;
#ifdef IDXC
  /* case split on the index for the operations that shift elements (memmove with symbolic position and
   * count exhausted the solver's memory): every in-range index is its own obligation */
  V_ASSUME(idx == (IDXC)); idx = (IDXC);
#endif

#if OP == OP_PUSH
  Array_Push(a, $(Elem, x, 0)); R[rn++] = x;
  V_WITNESS("push done");
  V_ASSERT(valid(a) && agrees(a), "push: appends at the end, everything else in place");
  V_ASSERT(owns(a, NULL) && elem_ledger_ok, "push: new element constructed once, old ones carried over (C05)");
#elif OP == OP_POP
  V_ASSUME(n > 0);
  Array_Pop(a); rn--;
  V_WITNESS("pop done");
  V_ASSERT(valid(a) && agrees(a), "pop: removes the last element only");
  V_ASSERT(owns(a, NULL) && elem_ledger_ok, "pop: popped element finalised exactly once (C05)");
#elif OP == OP_PUSH_AT
  /* in range: 0 <= idx <= n (idx == n appends); negative idx counts from the end of the NEW length */
  V_ASSUME(idx >= -(int64_t)(n + 1) && idx <= (int64_t)n);
  Array_Push_At(a, $(Elem, x, 0), $I(idx));
  { size_t at = idx >= 0 ? (size_t)idx : (size_t)((int64_t)(n + 1) + idx);
    for (size_t i = LMAX - 1; i > 0; i--) if (i > at && i <= rn) R[i] = R[i - 1];
    R[at] = x; rn++; }
  V_WITNESS("push_at done");
  V_ASSERT(valid(a) && agrees(a), "push_at: inserts at the index, later elements shift up by one");
  V_ASSERT(owns(a, NULL) && elem_ledger_ok, "push_at: shift moves elements without duplicating or dropping (C05)");
#elif OP == OP_POP_AT
  V_ASSUME(n > 0 && idx >= -(int64_t)n && idx < (int64_t)n);
  Array_Pop_At(a, $I(idx));
  { size_t at = idx >= 0 ? (size_t)idx : (size_t)((int64_t)n + idx);
    for (size_t i = 0; i < LMAX - 1; i++) if (i >= at && i + 1 < rn) R[i] = R[i + 1];
    rn--; }
  V_WITNESS("pop_at done");
  V_ASSERT(valid(a) && agrees(a), "pop_at: removes exactly the indexed element, later elements shift down");
  V_ASSERT(owns(a, NULL) && elem_ledger_ok, "pop_at: removed element finalised once, others carried over (C05)");
#elif OP == OP_GETSET
  V_ASSUME(n > 0 && idx >= -(int64_t)n && idx < (int64_t)n);
  size_t at = idx >= 0 ? (size_t)idx : (size_t)((int64_t)n + idx);
  struct Elem* g = Array_Get(a, $I(idx));
  V_WITNESS("get done");
  V_ASSERT(g == item(a, at) && g->val == R[at], "get: positive and negative indices select the element of the abstract sequence");
  V_ASSERT(type_of(g) == Elem, "get returns an object of the element type (C19)");
  Array_Set(a, $I(idx), $(Elem, x, 0)); R[at] = x;
  V_ASSERT(valid(a) && agrees(a) && owns(a, NULL) && elem_ledger_ok, "set: replaces exactly that element in place");
#elif OP == OP_REM
  { long at = -1; for (size_t i = 0; i < L; i++) if (i < rn && at < 0 && R[i] == x) at = (long)i;
    V_ASSUME(at >= 0);
    Array_Rem(a, $(Elem, x, 0));
    for (size_t i = 0; i < LMAX - 1; i++) if (i >= (size_t)at && i + 1 < rn) R[i] = R[i + 1];
    rn--; }
  V_WITNESS("rem done");
  V_ASSERT(valid(a) && agrees(a), "rem: deletes the FIRST element equal to the argument");
  V_ASSERT(owns(a, NULL) && elem_ledger_ok, "rem: removed element finalised once (C05)");
#elif OP == OP_REM_ABSENT
  { _Bool present = 0; for (size_t i = 0; i < L; i++) if (i < rn && R[i] == x) present = 1; V_ASSUME(!present); }
  snapshot(a); expect_throw = ValueError;
  Array_Rem(a, $(Elem, x, 0));
  V_ASSERT(0, "rem of an absent element must raise ValueError");
#elif OP == OP_MEM
  { _Bool present = 0; for (size_t i = 0; i < L; i++) if (i < rn && R[i] == x) present = 1;
    _Bool m = Array_Mem(a, $(Elem, x, 0));
    V_WITNESS("mem done");
    V_ASSERT(m == present, "mem agrees with the abstract sequence");
    V_ASSERT(Array_Len(a) == rn && valid(a) && agrees(a), "len agrees; lookups change nothing"); }
#elif OP == OP_CONCAT
  { struct Array* b = arbitrary_array(IN.m, IN.m, IN.oval); size_t om = b->nitems;
    Array_Concat(a, b);
    for (size_t i = 0; i < L; i++) if (i < om) R[rn + i] = IN.oval[i];
    rn += om;
    V_WITNESS("concat done");
    V_ASSERT(valid(a) && agrees(a), "concat: appends the other sequence in order");
    V_ASSERT(b->nitems == om && owns(a, b) && elem_ledger_ok, "concat: deep -- the source keeps its own elements, copies are new (C05)"); }
#elif OP == OP_RESIZE
  { size_t rs = IN.rs; V_ASSUME(rs <= L + 2);
    Array_Resize(a, rs);
    if (rs < rn) rn = rs;
    V_WITNESS("resize done");
    V_ASSERT(valid(a) && agrees(a), "resize: truncates to n elements (or only reserves room), order kept");
    V_ASSERT(rs == 0 ? (a->nslots == 0) : (a->nslots == rs), "resize: capacity is exactly the requested number of slots");
    V_ASSERT(owns(a, NULL) && elem_ledger_ok, "resize: dropped elements finalised exactly once (C05)"); }
#elif OP == OP_SORT
  Array_Sort_By(a, verif_lt);
  V_WITNESS("sort done");
  { _Bool sorted = 1; for (size_t i = 0; i + 1 < L; i++) if (i + 1 < n && item(a, i)->val > item(a, i + 1)->val) sorted = 0;
    V_ASSERT(a->nitems == n && sorted, "sort: result is ordered by the comparison function");
    _Bool perm = 1;
    for (int64_t v = 0; v < ELEM_D; v++) { int c0 = 0, c1 = 0; for (size_t i = 0; i < L; i++) if (i < n) { c0 += (R[i] == v); c1 += (item(a, i)->val == v); } if (c0 != c1) perm = 0; }
    V_ASSERT(perm, "sort: result is a permutation of the previous contents (multiset of values kept)");
    V_ASSERT(valid(a) && owns(a, NULL) && elem_ledger_ok, "sort: swaps neither duplicate nor drop an element (C05)"); }
#elif OP == OP_ITER
  { size_t cnt = 0; _Bool ok = 1;
    var c = Array_Iter_Init(a);
    for (int s = 0; s < L + 2 && c != Terminal; s++) { if (cnt >= n || c != (var)item(a, cnt)) ok = 0; cnt++; c = Array_Iter_Next(a, c); }
    V_WITNESS("iterated");
    V_ASSERT(c == Terminal && ok && cnt == n, "forward iteration: exactly len items, the i-th being get(i), then Terminal");
    size_t cb = 0; ok = 1;
    c = Array_Iter_Last(a);
    for (int s = 0; s < L + 2 && c != Terminal; s++) { if (cb >= n || c != (var)item(a, n - 1 - cb)) ok = 0; cb++; c = Array_Iter_Prev(a, c); }
    V_ASSERT(c == Terminal && ok && cb == n, "backward iteration: the same items in reverse order, then Terminal (no item before the first)");
    V_ASSERT(Array_Iter_Type(a) == Elem, "iter_type is the element type"); }
#elif OP == OP_ASSIGN
  { struct Array* b = arbitrary_array(IN.m, IN.m, IN.oval); size_t om = b->nitems;
    Array_Assign(a, b);
    rn = om; for (size_t i = 0; i < L; i++) R[i] = IN.oval[i];
    V_WITNESS("assign done");
    V_ASSERT(valid(a) && agrees(a), "assign: target holds the source's sequence");
    V_ASSERT(b->nitems == om && owns(a, b) && elem_ledger_ok, "assign: old elements finalised once, copies are new, source untouched (deep copy, C05)");
    V_ASSERT(a->nitems == 0 || a->data != b->data, "assign: storage is not shared"); }
#elif OP == OP_SHOW
  { static uint64_t outobj[2]; show_out = &outobj[1]; show_next_pos = 7;
    int end = Array_Show(a, show_out, 7);
    V_WITNESS("shown");
    _Bool ok = show_pos_ok && show_n == (int)(n == 0 ? 2 : 2 * n + 1) && end == 7 + show_n && show_kind[0] == 0 && show_kind[show_n - 1] == 0;
    for (size_t i = 0; i < L; i++) if (i < n) {
      int at = 1 + 2 * (int)i;
      if (at >= SHOW_MAX || show_kind[at] != 1 || show_a0[at] != (var)item(a, i)) ok = 0;
      if (i + 1 < n && (at + 1 >= SHOW_MAX || show_kind[at + 1] != 2)) ok = 0;
    }
    V_ASSERT(ok, "show: every element exactly once, in order, separators strictly between elements, positions threaded"); }
#elif OP == OP_MARK
  { static uint64_t gcobj[2]; mark_gc = &gcobj[1];
    Array_Mark(a, mark_gc, mark_rec);
    V_WITNESS("mark done");
    _Bool ok = mark_n == (int)n;
    for (size_t i = 0; i < L; i++) if (i < n && mark_seen[i] != (var)item(a, i)) ok = 0;
    V_ASSERT(ok, "every element of the Array is handed to the collector exactly once (C01)"); }
#elif OP == OP_DEL
  Array_Del(a);
  V_WITNESS("del done");
  V_ASSERT(elem_live_count() == 0 && elem_ledger_ok, "del finalises every element exactly once (C05)");
  V_ASSERT(vcw_live() == 0, "del releases the storage");
#elif OP == OP_BAD_INDEX
  /* any index outside [-n, n) over the whole int64 range: get / set / pop_at / push_at must raise */
  V_ASSUME(idx < -(int64_t)n - (IN.m % 4 == 3 ? 1 : 0) || idx >= (int64_t)n + (IN.m % 4 == 3 ? 1 : 0));
  snapshot(a); expect_throw = IndexOutOfBoundsError;
  switch (IN.m % 4) {
    case 0: Array_Get(a, $I(idx)); break;
    case 1: Array_Set(a, $I(idx), $(Elem, x, 0)); break;
    case 2: Array_Pop_At(a, $I(idx)); break;
    case 3: Array_Push_At(a, $(Elem, x, 0), $I(idx)); break;
  }
  V_ASSERT(0, "an out-of-range index must raise IndexOutOfBoundsError");
#elif OP == OP_POP_EMPTY
  V_ASSUME(n == 0);
  snapshot(a); expect_throw = IndexOutOfBoundsError;
  Array_Pop(a);
  V_ASSERT(0, "pop from an empty Array must raise IndexOutOfBoundsError");
#endif
  vcw_check();
#endif
}
#endif
