/* C04 (+C11, C12 clauses): one operation of the real Tuple.c on a heap Tuple in an ARBITRARY valid state:
 * length NLEN (case split), items = references to harness objects chosen symbolically (the same object may
 * occur twice, except in the iteration obligation -- Tuple cursors are the items themselves, see DESIGN.md
 * known findings), against a reference sequence.  eq/lt are value comparisons on the referenced objects;
 * the item storage goes through the fixed-capacity heap model (overflow canary).
 *   -DNLEN=<length> -DOP=<operation> [-DIDXC=<index>]                                                    */
#include "verif.h"
#ifndef L
#define L 3
#endif
#ifndef NLEN
#define NLEN 2
#endif
#define NOBJ 4
#ifndef MLEN
#define MLEN 2
#endif
#define LMAX (2 * L + 2)
struct Inputs { unsigned char sel[L]; unsigned char osel[L]; int64_t oval[NOBJ]; int64_t idx; unsigned char x; uint64_t m; uint64_t rs; };
#ifndef V_REPLAY_INPUT_ONLY
#include "Cello.h"
#define eq verif_eq
#define malloc vcw_malloc
#define realloc vcw_realloc
#define free vcw_free
#define memmove verif_memmove_w
bool verif_eq(var, var); void* vcw_malloc(size_t); void* vcw_realloc(void*, size_t); void vcw_free(void*); size_t vcw_size(const void*); void vcw_check(void); int vcw_live(void);
void* verif_memmove_w(void*, const void*, size_t);
#include "Tuple.c"   /* the real /repo/src/Tuple.c */
#undef eq
#undef malloc
#undef realloc
#undef free
#undef memmove
V_DECLARE_INPUTS
void* verif_memmove_w(void* dst, const void* src, size_t n) {
  V_ASSERT(n % 8 == 0, "harness: Tuple moves whole pointers");
  size_t w = n / 8;
  if ((char*)dst <= (const char*)src) { for (size_t i = 0; i < w; i++) ((var*)dst)[i] = ((var const*)src)[i]; }
  else { for (size_t i = w; i > 0; i--) ((var*)dst)[i - 1] = ((var const*)src)[i - 1]; }
  return dst;
}
static uint64_t OBJ[NOBJ][5];                               /* header (3 words) + value */
static var obj(long i) { return (var)&OBJ[i][3]; }
static long obj_index(var p) { for (long i = 0; i < NOBJ; i++) if (p == obj(i)) return i; return -1; }
static int64_t oval(var p) { return *(int64_t*)p; }
bool verif_eq(var a, var b) { return oval(a) == oval(b); }
static bool v_lt(var a, var b) { return oval(a) < oval(b); }
/* OP_CMPHASH: item-level cmp / hash are the items' own (Int) instances; redirected here (replace-calls) because the items
 * are symbolic choices among the harness objects and the dispatcher does not fold on a merged pointer */
int v_cmp_items(var a, var b) { int64_t x = oval(a), y = oval(b); return x < y ? -1 : x > y ? 1 : 0; }
uint64_t v_hash_items(var a) { return (uint64_t)oval(a); }
static var mark_gc = NULL; static var mark_seen[LMAX]; static int mark_n = 0; static _Bool mark_gc_ok = 1;
static void mark_rec(var gc, void* p) { if (gc != mark_gc) mark_gc_ok = 0; if (mark_n < LMAX) mark_seen[mark_n] = p; mark_n++; }

#define OP_PUSH 1
#define OP_POP 2
#define OP_PUSH_AT 3
#define OP_POP_AT 4
#define OP_GETSET 5
#define OP_REM 6
#define OP_MEM 7
#define OP_CONCAT 8
#define OP_RESIZE 9
#define OP_SORT 10
#define OP_ITER 11
#define OP_BAD_INDEX 12
#define OP_POP_EMPTY 13
#define OP_ASSIGN 14
#define OP_MARK 15
#define OP_REM_CALLS 16
#define OP_CMPHASH 17

static long R[LMAX]; static size_t rn;
static struct Tuple* make_tuple(size_t n, const unsigned char* sel) {
  static struct { struct Header h; struct Tuple t; } box[2]; static int nb = 0;
  struct Tuple* t = header_init(&box[nb++].h, Tuple, AllocHeap);
  t->items = vcw_malloc(sizeof(var) * (n + 1));
  for (size_t i = 0; i < L; i++) if (i < n) { V_ASSUME(sel[i] < NOBJ); t->items[i] = obj(sel[i]); }
  t->items[n] = Terminal;
  return t;
}
static _Bool agrees(struct Tuple* t) {
  if (vcw_size(t->items) < (rn + 1) * sizeof(var)) return 0;       /* items and the terminator lie inside the allocation */
  for (size_t i = 0; i < LMAX; i++) if (i < rn && t->items[i] != obj(R[i])) return 0;
  return t->items[rn] == Terminal && Tuple_Len(t) == rn;
}
/* OP_REM_CALLS: Tuple_Rem over a model of its callee.  Tuple_Pop_At's own contract (deletes item i, keeps the rest in
 * order and the terminator in place) is decided by the pop_at obligations; here it is an in-place shift that counts
 * its calls, so that what Tuple_Rem adds -- WHICH index it deletes and that it deletes ONE -- is decided cheaply */
static int popat_calls = 0; static int64_t popat_idx[2];
void verif_pop_at_stub(var self, var key) {
  struct Tuple* t = self; int64_t i = c_int(key);
  if (popat_calls < 2) popat_idx[popat_calls] = i; popat_calls++;
  _Bool shifting = 0;
  for (size_t k = 0; k < LMAX; k++) { if (t->items[k] == Terminal) break; if ((int64_t)k == i) shifting = 1; if (shifting) t->items[k] = t->items[k + 1]; }
}
static var expect_throw = NULL; static struct Tuple* snap_t; static var snap_items[LMAX];
static void snapshot(struct Tuple* t) { snap_t = t; for (size_t i = 0; i < LMAX; i++) if (i <= rn) snap_items[i] = t->items[i]; }
void verif_on_throw(void* o) {
  V_ASSERT(expect_throw != NULL, "operation raised an exception although its arguments are in contract");
  if (expect_throw == NULL) return;
  V_ASSERT(o == expect_throw, "the documented exception is raised");
  if (o != expect_throw) return;
  _Bool same = 1; for (size_t i = 0; i < LMAX; i++) if (i <= rn && snap_t->items[i] != snap_items[i]) same = 0;
  V_ASSERT(same, "failed operation leaves the Tuple exactly as it was");
  vcw_check();
  V_WITNESS_OPT("throw path reached");
}
V_HARNESS {
  V_LOAD_INPUTS();
  for (long i = 0; i < NOBJ; i++) { header_init(&OBJ[i][0], Int, AllocHeap); *(int64_t*)obj(i) = IN.oval[i]; }
  struct Tuple* t = make_tuple(NLEN, IN.sel);
  rn = NLEN; for (size_t i = 0; i < L; i++) R[i] = IN.sel[i];
  size_t n = rn; int64_t idx = IN.idx; long x = IN.x % NOBJ;
#ifdef IDXC
  V_ASSUME(idx == (IDXC)); idx = (IDXC);
#endif
#if OP == OP_PUSH
  Tuple_Push(t, obj(x)); R[rn++] = x;
  V_WITNESS("push done"); V_ASSERT(agrees(t), "push: appends at the end");
#elif OP == OP_POP
  Tuple_Pop(t); rn--;
  V_WITNESS("pop done"); V_ASSERT(agrees(t), "pop: removes the last item only");
#elif OP == OP_PUSH_AT
  V_ASSUME(idx >= -(int64_t)n && idx < (int64_t)n);          /* Tuple_Push_At accepts positions of existing items */
  Tuple_Push_At(t, obj(x), $I(idx));
  { size_t at = idx >= 0 ? (size_t)idx : (size_t)((int64_t)n + idx);
    for (size_t i = LMAX - 1; i > 0; i--) if (i > at && i <= rn) R[i] = R[i - 1];
    R[at] = x; rn++; }
  V_WITNESS("push_at done"); V_ASSERT(agrees(t), "push_at: inserts before the indexed item, later items shift up");
#elif OP == OP_POP_AT
  V_ASSUME(idx >= -(int64_t)n && idx < (int64_t)n);
  Tuple_Pop_At(t, $I(idx));
  { size_t at = idx >= 0 ? (size_t)idx : (size_t)((int64_t)n + idx);
    for (size_t i = 0; i < LMAX - 1; i++) if (i >= at && i + 1 < rn) R[i] = R[i + 1];
    rn--; }
  V_WITNESS("pop_at done"); V_ASSERT(agrees(t), "pop_at: removes exactly the indexed item");
#elif OP == OP_GETSET
  V_ASSUME(idx >= -(int64_t)n && idx < (int64_t)n);
  { size_t at = idx >= 0 ? (size_t)idx : (size_t)((int64_t)n + idx);
    V_ASSERT(Tuple_Get(t, $I(idx)) == obj(R[at]), "get: positive and negative indices select the item of the abstract sequence");
    Tuple_Set(t, $I(idx), obj(x)); R[at] = x;
    V_WITNESS("get/set done"); V_ASSERT(agrees(t), "set: replaces exactly that item"); }
#elif OP == OP_REM
  { long at = -1; for (size_t i = 0; i < L; i++) if (i < rn && at < 0 && IN.oval[R[i]] == IN.oval[x]) at = (long)i;
    V_ASSUME(at >= 0);
    Tuple_Rem(t, obj(x));
    for (size_t i = 0; i < LMAX - 1; i++) if (i >= (size_t)at && i + 1 < rn) R[i] = R[i + 1];
    rn--; }
  V_WITNESS("rem done"); V_ASSERT(agrees(t), "rem: deletes the FIRST item equal to the argument");
#elif OP == OP_REM_CALLS
  { long at = -1; for (size_t i = 0; i < L; i++) if (i < rn && at < 0 && IN.oval[R[i]] == IN.oval[x]) at = (long)i;
    Tuple_Rem(t, obj(x));
    V_WITNESS("rem returned");
    if (at >= 0) V_ASSERT(popat_calls == 1 && popat_idx[0] == at, "rem: exactly ONE item is deleted, the first one equal to the argument (later equal items stay)");
    else V_ASSERT(popat_calls == 0, "rem: nothing is deleted when no item equals the argument"); }
#elif OP == OP_MEM
  { _Bool present = 0; for (size_t i = 0; i < L; i++) if (i < rn && IN.oval[R[i]] == IN.oval[x]) present = 1;
    _Bool m;
    for (size_t i = 0; i < L; i++) for (size_t j = 0; j < L; j++) if (i < j && j < rn) V_ASSUME(R[i] != R[j]);   /* mem iterates: distinct references */
    m = Tuple_Mem(t, obj(x));
    V_WITNESS("mem done"); V_ASSERT(m == present && agrees(t), "mem agrees with the abstract sequence"); }
#elif OP == OP_CONCAT
  { size_t om = IN.m % (L + 1); struct Tuple* o = make_tuple(om, IN.osel);
    for (size_t i = 0; i < L; i++) for (size_t j = 0; j < L; j++) if (i < j && j < om) V_ASSUME(IN.osel[i] != IN.osel[j]);   /* concat iterates the source */
    Tuple_Concat(t, o);
    for (size_t i = 0; i < L; i++) if (i < om) R[rn + i] = IN.osel[i];
    rn += om;
    V_WITNESS("concat done"); V_ASSERT(agrees(t), "concat: appends the other sequence in order"); }
#elif OP == OP_ASSIGN
  /* assign from another heap Tuple of any length (shorter, equal, longer): exactly the source's items, terminated, inside the allocation */
  { size_t om = MLEN; struct Tuple* o = make_tuple(om, IN.osel);
    Tuple_Assign(t, o);
    rn = om; for (size_t i = 0; i < L; i++) if (i < om) R[i] = IN.osel[i];
    V_WITNESS("assign done");
    V_ASSERT(agrees(t), "assign: the Tuple holds exactly the items of its source, in order, then Terminal (also when the source is shorter)");
    _Bool src_ok = o->items[om] == Terminal; for (size_t i = 0; i < L; i++) if (i < om && o->items[i] != obj(IN.osel[i])) src_ok = 0;
    V_ASSERT(src_ok, "assign leaves its source alone"); }
#elif OP == OP_CMPHASH
  /* C09 / C10: Tuple_Cmp = induced lexicographic order of the item values, the shorter sequence first on a common
   * prefix (through the real iteration of the other Tuple and the real Int comparison); Tuple_Hash = XOR fold */
  { size_t om = MLEN; struct Tuple* o = make_tuple(om, IN.osel);
    for (size_t i = 0; i < L; i++) for (size_t j = 0; j < L; j++) if (i < j && j < om) V_ASSUME(IN.osel[i] != IN.osel[j]);   /* cmp iterates the other side (cursor by identity) */
    int want = 0;
    for (size_t i = 0; i < L + 1 && want == 0; i++) {
      if (i >= n && i >= om) break;
      if (i >= n) { want = -1; break; }
      if (i >= om) { want = 1; break; }
      int64_t a = IN.oval[R[i]], b = IN.oval[IN.osel[i]];
      if (a < b) want = -1; else if (a > b) want = 1;
    }
    _Bool t_distinct = 1; for (size_t i = 0; i < L; i++) for (size_t j = 0; j < L; j++) if (i < j && j < n && R[i] == R[j]) t_distinct = 0;
    int c1 = Tuple_Cmp(t, o);
    V_WITNESS("compared");
    V_ASSERT(c1 == want, "Tuple cmp is the lexicographic order of the items, the shorter sequence first on a common prefix");
    if (t_distinct) { int c2 = Tuple_Cmp(o, t); V_ASSERT(c2 == -want, "sign(cmp(a,b)) == -sign(cmp(b,a))"); }   /* the right operand is iterated: same object twice = known finding */
    uint64_t hw = 0; for (size_t i = 0; i < L; i++) if (i < n) hw ^= (uint64_t)IN.oval[R[i]];
    V_ASSERT(Tuple_Hash(t) == hw, "Tuple hash is the XOR fold of the item hashes (equal sequences hash equally)");
    V_ASSERT(agrees(t), "comparison and hashing change nothing"); }
#elif OP == OP_RESIZE
  { size_t rs = IN.rs % (L + 2);
    if (rs >= n) { snapshot(t); expect_throw = FormatError; }
    Tuple_Resize(t, rs);
    V_ASSERT(rs < n, "a Tuple cannot be resized to its own length or more: FormatError");
    rn = rs;
    V_WITNESS_OPT("resize done"); V_ASSERT(agrees(t), "resize: truncates to n items"); }
#elif OP == OP_SORT
  Tuple_Sort_By(t, v_lt);
  V_WITNESS("sort done");
  { _Bool sorted = 1; for (size_t i = 0; i + 1 < L; i++) if (i + 1 < n && oval(t->items[i]) > oval(t->items[i + 1])) sorted = 0;
    _Bool perm = 1; for (long o = 0; o < NOBJ; o++) { int c0 = 0, c1 = 0; for (size_t i = 0; i < L; i++) if (i < n) { c0 += (R[i] == o); c1 += (t->items[i] == obj(o)); } if (c0 != c1) perm = 0; }
    V_ASSERT(sorted && perm && t->items[n] == Terminal, "sort: a permutation of the previous items ordered by the comparison function"); }
#elif OP == OP_ITER
#ifdef DUP   /* known finding: the cursor of a Tuple is the item itself, found again by identity -- the same object stored twice */
  V_ASSUME(rn >= 2 && R[0] == R[1]);
#else
  for (size_t i = 0; i < L; i++) for (size_t j = 0; j < L; j++) if (i < j && j < rn) V_ASSUME(R[i] != R[j]);
#endif
  { size_t cnt = 0; _Bool ok = 1;
    var c = Tuple_Iter_Init(t);
    for (int s = 0; s < L + 2 && c != Terminal; s++) { if (cnt >= n || c != obj(R[cnt])) ok = 0; cnt++; c = Tuple_Iter_Next(t, c); }
    V_WITNESS("iterated");
    V_ASSERT(c == Terminal && ok && cnt == n, "forward iteration: exactly len items, the i-th being get(i), then Terminal");
    size_t cb = 0; ok = 1;
    c = Tuple_Iter_Last(t);
    for (int s = 0; s < L + 2 && c != Terminal; s++) { if (cb >= n || c != obj(R[n - 1 - cb])) ok = 0; cb++; c = Tuple_Iter_Prev(t, c); }
    V_ASSERT(c == Terminal && ok && cb == n, "backward iteration: the same items in reverse order, then Terminal (also for the empty Tuple)"); }
#elif OP == OP_MARK
  { static uint64_t gcobj[2]; mark_gc = &gcobj[1];
    Tuple_Mark(t, mark_gc, mark_rec);
    V_WITNESS("mark done");
    _Bool ok = mark_n == (int)n;
    for (size_t i = 0; i < L; i++) if (i < n && mark_seen[i] != obj(R[i])) ok = 0;
    V_ASSERT(ok && mark_gc_ok, "every item of the heap Tuple is handed to the collector exactly once, with the collector it was given (C01)"); }
#elif OP == OP_BAD_INDEX
  V_ASSUME(idx < -(int64_t)n || idx >= (int64_t)n);
  snapshot(t); expect_throw = IndexOutOfBoundsError;
  switch (IN.m % 4) {
    case 0: Tuple_Get(t, $I(idx)); break;
    case 1: Tuple_Set(t, $I(idx), obj(x)); break;
    case 2: Tuple_Pop_At(t, $I(idx)); break;
    case 3: Tuple_Push_At(t, obj(x), $I(idx)); break;
  }
  V_ASSERT(0, "an out-of-range index must raise IndexOutOfBoundsError");
#elif OP == OP_POP_EMPTY
  snapshot(t); expect_throw = IndexOutOfBoundsError;
  Tuple_Pop(t);
  V_ASSERT(0, "pop from an empty Tuple must raise IndexOutOfBoundsError");
#endif
  vcw_check();
}
#endif
