/* C04 (+C05, C11, C12, C19 clauses): one operation of the real List.c on a List in an ARBITRARY valid state of
 * NLEN nodes (case split on the length; element values, the index and the other operand symbolic), against a
 * reference sequence.  Every node is its own cbmc object (List.c's calloc/free are the pool below); elements are
 * the probe element with the ownership ledger.   -DNLEN= -DOP=                                                */
#include "verif.h"
#ifndef L
#define L 3
#endif
#ifndef NLEN
#define NLEN 2
#endif
#define PN 8                       /* pool nodes */
#define LMAX (2 * L + 2)
struct Inputs { int64_t val[L]; int64_t oval[L]; int64_t idx; int64_t x; uint64_t m; uint64_t rs; };
#ifndef V_REPLAY_INPUT_ONLY
#include "Cello.h"
#define eq verif_eq
#define cmp verif_cmp
#define hash verif_hash
#define assign verif_assign
#define destruct verif_destruct
#define calloc pool_calloc
#define free pool_free
var verif_assign(var, var); var verif_destruct(var); bool verif_eq(var, var); uint64_t verif_hash(var); int verif_cmp(var, var);
void* pool_calloc(size_t, size_t); void pool_free(void*);
#include "List.c"    /* the real /repo/src/List.c */
#undef eq
#undef cmp
#undef hash
#undef assign
#undef destruct
#undef calloc
#undef free
#define ELEM_D 4
#include "env_elem.h"
V_DECLARE_INPUTS
#define NW ((2 * sizeof(var) + sizeof(struct Header) + 16) / 8)
static uint64_t LN0[NW], LN1[NW], LN2[NW], LN3[NW], LN4[NW], LN5[NW], LN6[NW], LN7[NW];
static uint64_t* const LPOOL[PN] = { LN0, LN1, LN2, LN3, LN4, LN5, LN6, LN7 };
static int pool_live[PN], pool_next = 0, pool_frees = 0;
static var item_of(long i) { return i < 0 ? NULL : (var)((char*)LPOOL[i] + 2 * sizeof(var) + sizeof(struct Header)); }
static long node_index(var raw) { for (long i = 0; i < PN; i++) if (raw == (var)LPOOL[i]) return i; return -1; }
void* pool_calloc(size_t a, size_t b) {
  V_ASSERT(a * b == NW * 8, "harness: List allocates whole nodes"); V_ASSERT(pool_next < PN, "harness bound: enough pool nodes");
  int i = pool_next++; for (size_t w = 0; w < NW; w++) LPOOL[i][w] = 0; pool_live[i] = 1; return LPOOL[i];
}
void pool_free(void* p) { long i = node_index(p); V_ASSERT(i >= 0 && pool_live[i], "free only of a live node, exactly once"); if (i >= 0) pool_live[i] = 0; pool_frees++; }
static int pool_live_count(void) { int n = 0; for (int i = 0; i < PN; i++) n += pool_live[i]; return n; }

#define OP_PUSH 1
#define OP_POP 2
#define OP_PUSH_AT 3
#define OP_POP_AT 4
#define OP_GETSET 5
#define OP_REM 6
#define OP_MEM 7
#define OP_CONCAT 8
#define OP_RESIZE 9
#define OP_ITER 11
#define OP_ASSIGN 12
#define OP_DEL 13
#define OP_BAD_INDEX 14
#define OP_POP_EMPTY 15
#define OP_REM_ABSENT 16
#define OP_MARK 18

static int64_t R[LMAX]; static size_t rn;
static struct List* make_list(size_t n, const int64_t* vals) {
  static struct { struct Header h; struct List l; } box[2]; static int nb = 0;
  struct List* l = header_init(&box[nb++].h, List, AllocHeap);
  l->type = Elem; l->tsize = 16; l->nitems = n; l->head = NULL; l->tail = NULL;
  var prev = NULL;
  for (size_t i = 0; i < L; i++) if (i < n) {
    var it = List_Alloc(l);
    struct Elem* e = it; e->val = vals[i]; e->tok = elem_issue();
    *List_Prev(l, it) = prev; *List_Next(l, it) = NULL;
    if (prev) *List_Next(l, prev) = it; else l->head = it;
    prev = it; l->tail = it;
  }
  return l;
}
/* independent walk: forward chain has exactly rn items with the reference values, links consistent both ways */
static _Bool agrees(struct List* l) {
  if (l->nitems != rn) return 0;
  var it = l->head; var prev = NULL; size_t k = 0;
  for (size_t s = 0; s < LMAX + 1; s++) {
    if (it == NULL) break;
    if (k >= rn) return 0;
    long ni = node_index((char*)it - sizeof(struct Header) - 2 * sizeof(var));
    if (ni < 0 || !pool_live[ni]) return 0;
    if (*List_Prev(l, it) != prev) return 0;
    if (((struct Elem*)it)->val != R[k]) return 0;
    if (header(it)->type != Elem) return 0;
    prev = it; it = *List_Next(l, it); k++;
  }
  return it == NULL && k == rn && l->tail == prev;
}
static _Bool owns(struct List* a, struct List* b) {
  int seen[ELEM_MAXTOK]; for (int i = 0; i < ELEM_MAXTOK; i++) seen[i] = 0;
  int cnt = 0;
  for (int w = 0; w < 2; w++) { struct List* l = w ? b : a; if (!l) continue;
    var it = l->head;
    for (size_t s = 0; s < LMAX + 1 && it != NULL; s++) { int64_t t = ((struct Elem*)it)->tok; if (t <= 0 || t >= ELEM_MAXTOK || elem_tok_state[t] != 1 || seen[t]) return 0; seen[t] = 1; cnt++; it = *List_Next(l, it); } }
  return cnt == elem_live_count() && cnt == pool_live_count();
}
static var expect_throw = NULL; static struct List* snap_l; static struct List snap_struct; static uint64_t snap_nodes[PN][NW]; static int snap_live, snap_nodes_live;
static void snapshot(struct List* l) { snap_l = l; snap_struct = *l; snap_live = elem_live_count(); snap_nodes_live = pool_live_count(); for (int i = 0; i < PN; i++) for (size_t w = 0; w < NW; w++) snap_nodes[i][w] = LPOOL[i][w]; }
void verif_on_throw(void* o) {
  V_ASSERT(expect_throw != NULL, "operation raised an exception although its arguments are in contract");
  if (expect_throw == NULL) return;
  V_ASSERT(o == expect_throw, "the documented exception is raised");
  if (o != expect_throw) return;
  _Bool same = snap_l->head == snap_struct.head && snap_l->tail == snap_struct.tail && snap_l->nitems == snap_struct.nitems;
  for (int i = 0; i < PN; i++) if (i < snap_nodes_live) for (size_t w = 0; w < NW; w++) if (snap_nodes[i][w] != LPOOL[i][w]) same = 0;
  V_ASSERT(same, "failed operation leaves the List exactly as it was");
  V_ASSERT(snap_live == elem_live_count() && snap_nodes_live == pool_live_count() && elem_ledger_ok, "failed operation constructs, finalises, allocates and frees nothing");
  V_WITNESS_OPT("throw path reached");
}
static var mark_seen[LMAX]; static int mark_n = 0; static var mark_gc;
static void mark_rec(var gc, void* p) { if (mark_n < LMAX) mark_seen[mark_n] = p; mark_n++; }

V_HARNESS {
  V_LOAD_INPUTS();
  struct List* l = make_list(NLEN, IN.val);
  rn = NLEN; for (size_t i = 0; i < L; i++) R[i] = IN.val[i];
  size_t n = rn; int64_t idx = IN.idx, x = IN.x;
#ifdef IDXC
  V_ASSUME(idx == (IDXC)); idx = (IDXC);
#endif
#if OP == OP_PUSH
  List_Push(l, $(Elem, x, 0)); R[rn++] = x;
  V_WITNESS("push done"); V_ASSERT(agrees(l) && owns(l, NULL) && elem_ledger_ok, "push: appends at the end; new element constructed once");
#elif OP == OP_POP
  List_Pop(l); rn--;
  V_WITNESS("pop done"); V_ASSERT(agrees(l) && owns(l, NULL) && elem_ledger_ok && pool_frees == 1, "pop: removes the last element, finalised once, node freed once");
#elif OP == OP_PUSH_AT
  V_ASSUME(idx == 0 || (idx >= -(int64_t)n && idx < (int64_t)n));
  List_Push_At(l, $(Elem, x, 0), $I(idx));
  { size_t at = idx >= 0 ? (size_t)idx : (size_t)((int64_t)n + idx);
    for (size_t i = LMAX - 1; i > 0; i--) if (i > at && i <= rn) R[i] = R[i - 1];
    R[at] = x; rn++; }
  V_WITNESS("push_at done"); V_ASSERT(agrees(l) && owns(l, NULL) && elem_ledger_ok, "push_at: inserts before the indexed element (0 on an empty List)");
#elif OP == OP_POP_AT
  V_ASSUME(idx >= -(int64_t)n && idx < (int64_t)n);
  List_Pop_At(l, $I(idx));
  { size_t at = idx >= 0 ? (size_t)idx : (size_t)((int64_t)n + idx);
    for (size_t i = 0; i < LMAX - 1; i++) if (i >= at && i + 1 < rn) R[i] = R[i + 1];
    rn--; }
  V_WITNESS("pop_at done"); V_ASSERT(agrees(l) && owns(l, NULL) && elem_ledger_ok && pool_frees == 1, "pop_at: removes exactly the indexed element, finalised once");
#elif OP == OP_GETSET
  V_ASSUME(idx >= -(int64_t)n && idx < (int64_t)n);
  { size_t at = idx >= 0 ? (size_t)idx : (size_t)((int64_t)n + idx);
    struct Elem* g = List_Get(l, $I(idx));
    V_ASSERT(g->val == R[at] && type_of(g) == Elem, "get: positive and negative indices select the element of the abstract sequence, typed as the element type");
    List_Set(l, $I(idx), $(Elem, x, 0)); R[at] = x;
    V_WITNESS("get/set done"); V_ASSERT(agrees(l) && owns(l, NULL) && elem_ledger_ok, "set: replaces exactly that element in place"); }
#elif OP == OP_REM
  { long at = -1; for (size_t i = 0; i < L; i++) if (i < rn && at < 0 && R[i] == x) at = (long)i;
    V_ASSUME(at >= 0);
    List_Rem(l, $(Elem, x, 0));
    for (size_t i = 0; i < LMAX - 1; i++) if (i >= (size_t)at && i + 1 < rn) R[i] = R[i + 1];
    rn--; }
  V_WITNESS("rem done"); V_ASSERT(agrees(l) && owns(l, NULL) && elem_ledger_ok, "rem: deletes the FIRST element equal to the argument, finalised once");
#elif OP == OP_REM_ABSENT
  { _Bool present = 0; for (size_t i = 0; i < L; i++) if (i < rn && R[i] == x) present = 1; V_ASSUME(!present); }
  snapshot(l); expect_throw = ValueError;
  List_Rem(l, $(Elem, x, 0));
  V_ASSERT(0, "rem of an absent element must raise ValueError");
#elif OP == OP_MEM
  { _Bool present = 0; for (size_t i = 0; i < L; i++) if (i < rn && R[i] == x) present = 1;
    _Bool m = List_Mem(l, $(Elem, x, 0));
    V_WITNESS("mem done"); V_ASSERT(m == present && List_Len(l) == rn && agrees(l), "mem and len agree with the abstract sequence"); }
#elif OP == OP_CONCAT
  { size_t om = MLEN; struct List* o = make_list(om, IN.oval);
    List_Concat(l, o);
    for (size_t i = 0; i < L; i++) if (i < om) R[rn + i] = IN.oval[i];
    rn += om;
    V_WITNESS("concat done"); V_ASSERT(agrees(l) && o->nitems == om && owns(l, o) && elem_ledger_ok, "concat: appends the other sequence in order; deep (the source keeps its own elements)"); }
#elif OP == OP_ASSIGN
  { size_t om = MLEN; struct List* o = make_list(om, IN.oval);
    List_Assign(l, o);
    rn = om; for (size_t i = 0; i < L; i++) R[i] = IN.oval[i];
    V_WITNESS("assign done"); V_ASSERT(agrees(l) && o->nitems == om && owns(l, o) && elem_ledger_ok, "assign: target holds the source's sequence; old elements finalised once; deep copy"); }
#elif OP == OP_RESIZE
  { size_t rs = IN.rs % (L + 1); V_ASSUME(rs <= n);
    List_Resize(l, rs); rn = rs;
    V_WITNESS("resize done"); V_ASSERT(agrees(l) && owns(l, NULL) && elem_ledger_ok, "resize: truncates to n elements, dropped ones finalised once"); }
#elif OP == OP_ITER
  { size_t cnt = 0; _Bool ok = 1;
    var c = List_Iter_Init(l);
    for (int s = 0; s < L + 2 && c != Terminal; s++) { if (cnt >= n || ((struct Elem*)c)->val != R[cnt] || c != List_At(l, (int64_t)cnt)) ok = 0; cnt++; c = List_Iter_Next(l, c); }
    V_WITNESS("iterated");
    V_ASSERT(c == Terminal && ok && cnt == n, "forward iteration: exactly len items, the i-th being get(i), then Terminal");
    size_t cb = 0; ok = 1;
    c = List_Iter_Last(l);
    for (int s = 0; s < L + 2 && c != Terminal; s++) { if (cb >= n || ((struct Elem*)c)->val != R[n - 1 - cb]) ok = 0; cb++; c = List_Iter_Prev(l, c); }
    V_ASSERT(c == Terminal && ok && cb == n && List_Iter_Type(l) == Elem, "backward iteration: the same items in reverse order, then Terminal"); }
#elif OP == OP_MARK
  { static uint64_t gcobj[2]; mark_gc = &gcobj[1];
    List_Mark(l, mark_gc, mark_rec);
    V_WITNESS("mark done");
    _Bool ok = mark_n == (int)n; var it = l->head;
    for (size_t i = 0; i < L; i++) if (i < n) { if (mark_seen[i] != it) ok = 0; it = *List_Next(l, it); }
    V_ASSERT(ok, "every element of the List is handed to the collector exactly once (C01)"); }
#elif OP == OP_DEL
  List_Del(l);
  V_WITNESS("del done"); V_ASSERT(elem_live_count() == 0 && elem_ledger_ok && pool_live_count() == 0, "del finalises every element once and frees every node once");
#elif OP == OP_BAD_INDEX
  V_ASSUME(idx < -(int64_t)n || idx >= (int64_t)n);
  V_ASSUME(!(IN.m % 4 == 3 && idx == 0));             /* push_at(0) on any List is valid */
  snapshot(l); expect_throw = IndexOutOfBoundsError;
  switch (IN.m % 4) {
    case 0: List_Get(l, $I(idx)); break;
    case 1: List_Set(l, $I(idx), $(Elem, x, 0)); break;
    case 2: List_Pop_At(l, $I(idx)); break;
    case 3: List_Push_At(l, $(Elem, x, 0), $I(idx)); break;
  }
  V_ASSERT(0, "an out-of-range index must raise IndexOutOfBoundsError");
#elif OP == OP_POP_EMPTY
  snapshot(l); expect_throw = IndexOutOfBoundsError;
  List_Pop(l);
  V_ASSERT(0, "pop from an empty List must raise IndexOutOfBoundsError");
#endif
}
#endif
