/* C02 (+C05, C11, C12, C19 clauses): one operation of the real Table.c from an ARBITRARY
 * valid state: arbitrary occupancy, arbitrary keys/values, arbitrary (uninterpreted) hash
 * function H[], arbitrary robin-hood layout including wrap-around.  One inductive step covers
 * operation histories of any length for the slot counts explored (base case: table_init).
 *
 *   -DNS=<slots>  -DOP=<operation>  [-DELEM_D=<key domain>]
 */
#include "verif.h"
#ifndef NS
#define NS 5
#endif
#ifndef ELEM_D
#define ELEM_D 6
#endif
struct Inputs {
  uint64_t H[ELEM_D];
  unsigned char occ[NS]; uint64_t home[NS]; int64_t key[NS]; int64_t val[NS];
  int64_t q; int64_t k; int64_t v; uint64_t n;
};
#ifndef V_REPLAY_INPUT_ONLY
#define eq verif_eq
#define hash verif_hash
#define assign verif_assign
#define destruct verif_destruct
#include "Cello.h"
var verif_assign(var, var); var verif_destruct(var); bool verif_eq(var, var); uint64_t verif_hash(var);
#include "Table.c"   /* the real /repo/src/Table.c (-I <repo>/src) */
#undef eq
#undef hash
#undef assign
#undef destruct
#include "env_elem.h"
V_DECLARE_INPUTS

#define OP_SET 1
#define OP_REM 2
#define OP_GET 3
#define OP_ITER 4
#define OP_RESIZE 5
#define OP_CLEAR_SET 6
#define OP_REM_ABSENT 7
#define OP_GET_ABSENT 8
#define OP_INIT 9
#define OP_DEL 10
#define OP_SETMOVE 11
#define OP_REHASH 12
#define OP_MARK 13
#define OP_SHOW 14
/* largest nitems with Table_Ideal_Size(nitems) <= NS (the size schedule itself is checked in OP_INIT) */
/* MAXN_BELOW: largest nitems that fits the next smaller size (-1: none) */
#if NS == 1
#define MAXN 0
#define MAXN_BELOW (-1)
#define NS_UP 5
#define NS_DOWN 0
#elif NS == 5
#define MAXN 4
#define MAXN_BELOW 0
#define NS_UP 11
#define NS_DOWN 1
#elif NS == 11
#define MAXN 9
#define MAXN_BELOW 4
#define NS_UP 23
#define NS_DOWN 5
#elif NS == 23
#define MAXN 19
#define MAXN_BELOW 9
#define NS_UP 53
#define NS_DOWN 11
#endif

/* values are of the WIDER probe type (key 16 bytes, value 24): key and value sizes differ, as they may in any Table */
#define VTYPE ElemV
#define VSZ 24
#define VNEW(v) $(ElemV, (v), 0, ELEMV_TAG(v))
static int64_t slot_key(struct Table* t, size_t i) { return ((struct Elem*)Table_Key(t, i))->val; }
static int64_t slot_val(struct Table* t, size_t i) { return ((struct Elem*)Table_Val(t, i))->val; }

/* representation invariant over ns slots (ns is a compile-time constant at every call site) */
static _Bool inv(struct Table* t, size_t ns) {
  size_t occ = 0;
  if (t->nslots != ns) return 0;
  for (size_t i = 0; i < ns; i++) {
    uint64_t h = Table_Key_Hash(t, i);
    if (h == 0) continue;
    occ++;
    int64_t k = slot_key(t, i);
    if (k < 0 || k >= ELEM_D) return 0;
#if defined(HBITS) || defined(HFULL)
    if (h != ELEM_H[k] % ns + 1) return 0;              /* stored home = hash % nslots + 1 */
#else
    if (h != (ELEM_H[k] < ns ? ELEM_H[k] : ELEM_H[k] % ns) + 1) return 0;
#endif
    uint64_t p = Table_Probe(t, i, h);
    for (size_t d = 0; d < ns; d++) {                    /* robin-hood: no hole, no poorer entry, between home and here */
      if (d >= p) break;
      size_t j = h - 1 + d; if (j >= ns) j -= ns;
      uint64_t hj = Table_Key_Hash(t, j);
      if (hj == 0) return 0;
      if (Table_Probe(t, j, hj) < d) return 0;
    }
    for (size_t j = 0; j < ns; j++) if (j != i && Table_Key_Hash(t, j) != 0 && slot_key(t, j) == k) return 0;
    /* embedded headers carry the element type and the Data allocation class (C19) */
    if (header(Table_Key(t, i))->type != Elem || header(Table_Val(t, i))->type != VTYPE) return 0;
    if (((struct ElemV*)Table_Val(t, i))->extra != ELEMV_TAG(slot_val(t, i))) return 0;        /* the whole value is there, not just its first ksize bytes */
#if CELLO_ALLOC_CHECK == 1
    if (header(Table_Key(t, i))->alloc != (var)AllocData || header(Table_Val(t, i))->alloc != (var)AllocData) return 0;
#endif
  }
  return occ == t->nitems;
}
/* ownership: every stored key and value holds a distinct live token; nothing else is live */
static _Bool owns(struct Table* t, size_t ns) {
  int seen[ELEM_MAXTOK]; for (int i = 0; i < ELEM_MAXTOK; i++) seen[i] = 0;
  int cnt = 0;
  for (size_t i = 0; i < ns; i++) {
    if (Table_Key_Hash(t, i) == 0) continue;
    int64_t a = ((struct Elem*)Table_Key(t, i))->tok, b = ((struct Elem*)Table_Val(t, i))->tok;
    if (a <= 0 || a >= ELEM_MAXTOK || b <= 0 || b >= ELEM_MAXTOK) return 0;
    if (elem_tok_state[a] != 1 || elem_tok_state[b] != 1) return 0;
    if (seen[a] || a == b || seen[b]) return 0;
    seen[a] = 1; seen[b] = 1; cnt += 2;
  }
  return cnt == elem_live_count();
}
static _Bool model_get(struct Table* t, size_t ns, int64_t q, int64_t* v) {
  for (size_t i = 0; i < ns; i++) if (Table_Key_Hash(t, i) != 0 && slot_key(t, i) == q) { *v = slot_val(t, i); return 1; }
  return 0;
}

/* throw oracle */
static var expect_throw = NULL;
static struct Table* snap_t; static unsigned char snap_struct[sizeof(struct Table)];
static unsigned char snap_data[NS * (8 + 2 * sizeof(struct Header) + 16 + 24)]; static int snap_live;
static _Bool words_equal(const void* a, const void* b, size_t nbytes) {
  for (size_t i = 0; i < nbytes / 8; i++) if (((const uint64_t*)a)[i] != ((const uint64_t*)b)[i]) return 0;
  return 1;
}
static void snapshot(struct Table* t) {
  snap_t = t; *(struct Table*)snap_struct = *t;
  if (t->data) for (size_t i = 0; i < NS * Table_Step(t) / 8; i++) ((uint64_t*)snap_data)[i] = ((uint64_t*)t->data)[i];
  snap_live = elem_live_count();
}
void verif_on_throw(void* obj) {
  V_ASSERT(expect_throw != NULL, "operation raised an exception although its arguments are in contract");
  if (expect_throw == NULL) return;
  V_ASSERT(obj == expect_throw, "the documented exception is raised (KeyError for an absent key)");
  if (obj != expect_throw) return;      /* keeps the state comparison out of every other throw site */
  V_ASSERT(words_equal(snap_struct, snap_t, sizeof(struct Table)), "failed operation leaves the Table struct unchanged");
  if (snap_t->data) V_ASSERT(words_equal(snap_data, snap_t->data, NS * Table_Step(snap_t)), "failed operation leaves the slot storage unchanged");
  V_ASSERT(snap_live == elem_live_count() && elem_ledger_ok, "failed operation finalises nothing");
  V_WITNESS_OPT("throw path reached");
}

/* assume-guarantee split: in the SET / REM / RESIZE obligations calls to Table_Rehash are redirected here
 * (goto-instrument --replace-calls); Table_Rehash itself is discharged by the OP_REHASH obligations for every
 * pair of sizes on the schedule.  The stub records the request; the harness checks it against the schedule. */
static int rehash_calls = 0; static size_t rehash_size = 0;
void verif_rehash_stub(struct Table* t, size_t new_size) { rehash_calls++; rehash_size = new_size; }

/* Mark instance: the collector's callback must be handed every key and every value exactly once */
static var mark_seen[2 * NS + 2]; static int mark_n = 0; static var mark_gc;
static void mark_rec(var gc, void* p) { V_ASSERT(gc == mark_gc, "the collector handle is passed through"); if (mark_n < 2 * NS + 2) mark_seen[mark_n] = p; mark_n++; }

/* Show instance (C14: "for a container: its elements' own show text, each once, in iteration order"): print_to_with is
 * a recorder here (replace-calls).  Every call advances the position by one, so the value returned at the end also
 * shows that each call was given the position its predecessor returned. */
#define SHOW_MAX 24
static int show_n = 0; static int show_kind[SHOW_MAX]; static var show_a0[SHOW_MAX], show_a1[SHOW_MAX]; static int show_pos_ok = 1, show_next_pos = 0; static var show_out = NULL;
int v_print_rec(var out, int pos, const char* fmt, var args) {
  if (out != show_out || pos != show_next_pos) show_pos_ok = 0;
  int kind = 0;                                   /* 0 literal, 1 element ("%$" present), 2 separator ", " */
  for (int i = 0; i < 12 && fmt[i]; i++) if (fmt[i] == '%' && fmt[i + 1] == '$') kind = 1;
  if (fmt[0] == ',' && fmt[1] == ' ' && fmt[2] == 0) kind = 2;
  if (show_n < SHOW_MAX) { show_kind[show_n] = kind; struct Tuple* tp = args; show_a0[show_n] = tp->items[0]; show_a1[show_n] = (tp->items[0] != Terminal) ? tp->items[1] : Terminal; }
  show_n++; show_next_pos = pos + 1;
  return pos + 1;
}
static struct Table* arbitrary_table(void) {
  /* the Table object is laid out directly (header + struct); the constructor is covered by OP_INIT */
  static struct { struct Header h; struct Table t; } tobj;
  struct Table* t = header_init(&tobj.h, Table, AllocHeap);
  t->ktype = Elem; t->vtype = VTYPE; t->ksize = 16; t->vsize = VSZ;
  t->sspace0 = calloc(1, Table_Step(t)); t->sspace1 = calloc(1, Table_Step(t));
#if OP == OP_ITER
  /* guard band: cursor arithmetic forms one-before-first pointers (Table_Iter_Prev: curr - step, then
   * curr < first); cbmc orders pointers below an object's start ABOVE it, so the storage gets one
   * record of slack either side.  A cursor pointing into the slack is a harness assertion failure. */
  { char* base = calloc(NS + 2, Table_Step(t)); V_ASSUME(base != NULL); t->data = base + Table_Step(t); }
  t->nslots = NS;
#else
  t->nslots = NS; t->data = calloc(NS, Table_Step(t));
#endif
  V_ASSUME(t->data != NULL && t->sspace0 != NULL && t->sspace1 != NULL);
  size_t n = 0;
  for (size_t i = 0; i < NS; i++) {
    if (IN.occ[i]) {
      char* rec = (char*)t->data + i * Table_Step(t);
      V_ASSUME(IN.home[i] >= 1 && IN.home[i] <= NS);
      *(uint64_t*)rec = IN.home[i];
      struct Elem* k = header_init(rec + 8, Elem, AllocData);
      struct ElemV* v = header_init(rec + 8 + sizeof(struct Header) + 16, VTYPE, AllocData);
      v->extra = ELEMV_TAG(IN.val[i]);
      k->val = IN.key[i]; k->tok = elem_issue();
      v->val = IN.val[i]; v->tok = elem_issue();
      n++;
    }
  }
  t->nitems = n;
  V_ASSUME(inv(t, NS));
#if OP != OP_REHASH
  V_ASSUME(n <= MAXN);                      /* Table_Ideal_Size(nitems) <= nslots: what Table_Set / Table_Rem / Table_Resize maintain */
#endif
  return t;
}

V_HARNESS {
  V_LOAD_INPUTS();
  for (int i = 0; i < ELEM_D; i++) {
#ifdef HBITS
    V_ASSUME(IN.H[i] < ((uint64_t)1 << HBITS));     /* stated bound on the hash values */
#elif !defined(HFULL)
    V_ASSUME(IN.H[i] < NS);                         /* stated bound: hash values are slot residues (the unit uses hash % nslots only) */
#endif
    ELEM_H[i] = IN.H[i];
  }
  int64_t q = IN.q, k = IN.k, v = IN.v;
  V_ASSUME(q >= 0 && q < ELEM_D && k >= 0 && k < ELEM_D);
  struct Elem* pk = $(Elem, k, 0);   /* the key operated on */
#ifdef HOME
  /* case split on the home slot of the key operated on: its hash is the CONSTANT HOME, so every slot
   * index computed by the unit folds; all HOME in 0..NS-1 are separate obligations */
  V_ASSUME(ELEM_H[k] == HOME);
  elem_probe_key = pk; elem_probe_hash = HOME;
#endif

#if OP == OP_INIT
  /* base case: what the constructor builds satisfies the invariant */
  struct Table* t = new_raw(Table, Elem, VTYPE);
  V_WITNESS("constructed");
  V_ASSERT(t->nslots == 1 && inv(t, 1) && t->nitems == 0 && Table_Len(t) == 0, "new Table: one empty slot, invariant holds");
  V_ASSERT(!Table_Mem(t, $(Elem, q, 0)), "new Table: no key is a member");
  V_ASSERT(Table_Iter_Init(t) == Terminal && Table_Iter_Last(t) == Terminal, "new Table: iteration is empty");
  V_ASSERT(Table_Ideal_Size(0) == 1 && Table_Ideal_Size(1) == 5 && Table_Ideal_Size(4) == 5 && Table_Ideal_Size(5) == 11 &&
           Table_Ideal_Size(9) == 11 && Table_Ideal_Size(10) == 23, "size schedule 1,5,11,23 as the harness bounds assume");
  Table_Set(t, pk, VNEW(v));
  V_ASSERT(t->nslots == 5 && inv(t, 5) && t->nitems == 1 && owns(t, 5), "first set grows 1 -> 5 slots, invariant and ownership hold");
  int64_t gv = -1; V_ASSERT(model_get(t, 5, k, &gv) && gv == v, "first set binds the key");
  V_ASSERT(((struct Elem*)Table_Get(t, pk))->val == v && Table_Mem(t, pk), "get/mem find it");
#else
  struct Table* t = arbitrary_table();
  size_t n = t->nitems;
  int64_t pre_v = 0; _Bool pre_m = model_get(t, NS, q, &pre_v);
  int64_t kv = 0; _Bool k_in = model_get(t, NS, k, &kv);
  V_ASSERT(owns(t, NS), "harness: pre-state ownership consistent");

#if OP == OP_SETMOVE
  /* the insertion kernel alone (what Table_Set, Table_New, Table_Assign and every rehash step run):
   * precondition: at least one empty slot */
  V_ASSUME(n < NS);
  Table_Set_Move(t, pk, VNEW(v), false);
  V_WITNESS("set_move completed");
  size_t n2 = n + (k_in ? 0 : 1);
  V_ASSERT(inv(t, NS), "set_move: representation invariant preserved");
  V_ASSERT(t->nitems == n2, "set_move: len counts bindings (update of an existing key does not add one)");
  int64_t post_v = 0; _Bool post_m = model_get(t, NS, q, &post_v);
  if (q == k) V_ASSERT(post_m && post_v == v, "set_move: the key is bound to the new value");
  else V_ASSERT(post_m == pre_m && (!pre_m || post_v == pre_v), "set_move: every other binding is untouched");
  V_ASSERT(elem_ledger_ok && owns(t, NS), "set_move: every stored element owned exactly once, replaced ones finalised, none lost (C05)");

#elif OP == OP_REHASH
  /* Table_Rehash NS -> NS2 from an arbitrary valid state (any occupancy that fits the target):
   * the growth step of Table_Set, the shrink step of Table_Rem and the body of Table_Resize */
  V_ASSUME(n < NS2);
  Table_Rehash(t, NS2);
  V_WITNESS("rehash completed");
  V_ASSERT(inv(t, NS2), "rehash: representation invariant holds in the new storage");
  int64_t post_v = 0; _Bool post_m = model_get(t, NS2, q, &post_v);
  V_ASSERT(post_m == pre_m && (!pre_m || post_v == pre_v) && t->nitems == n, "rehash: the map is unchanged");
  V_ASSERT(elem_ledger_ok && owns(t, NS2), "rehash: elements moved, not copied, re-constructed or dropped (C05)");

#elif OP == OP_SET
  /* Table_Set = Table_Set_Move + Table_Resize_More; the rehash call is the stub */
  Table_Set(t, pk, VNEW(v));
  V_WITNESS("set completed");
  size_t n2 = n + (k_in ? 0 : 1);
  V_ASSERT(inv(t, NS), "set: representation invariant holds before any growth rehash");
  V_ASSERT(t->nitems == n2 && Table_Len(t) == n2, "set: len counts bindings (update of an existing key does not add one)");
  V_ASSERT(rehash_calls == (n2 > MAXN ? 1 : 0), "set: growth rehash requested exactly when the load limit is exceeded");
  if (n2 > MAXN) V_ASSERT(rehash_size == NS_UP, "set: growth goes to the next size on the schedule");
  int64_t post_v = 0; _Bool post_m = model_get(t, NS, q, &post_v);
  if (q == k) V_ASSERT(post_m && post_v == v, "set: the key is bound to the new value");
  else V_ASSERT(post_m == pre_m && (!pre_m || post_v == pre_v), "set: every other binding is untouched");
  V_ASSERT(elem_ledger_ok && owns(t, NS), "set: every stored element owned exactly once, replaced ones finalised, none lost (C05)");

#elif OP == OP_REM
  V_ASSUME(k_in);
  Table_Rem(t, pk);
  V_WITNESS("rem completed");
  size_t n2 = n - 1;
  V_ASSERT(inv(t, NS), "rem: representation invariant holds (backward shift leaves no hole in a probe run)");
  V_ASSERT(t->nitems == n2 && Table_Len(t) == n2, "rem: len decreases by one");
  V_ASSERT(rehash_calls == ((int64_t)n2 <= MAXN_BELOW ? 1 : 0), "rem: shrink rehash requested exactly when the contents fit the next smaller size");
  if ((int64_t)n2 <= MAXN_BELOW) V_ASSERT(rehash_size == NS_DOWN, "rem: shrink goes to the next smaller size on the schedule");
  int64_t post_v = 0; _Bool post_m = model_get(t, NS, q, &post_v);
  if (q == k) V_ASSERT(!post_m, "rem: the key is gone");
  else V_ASSERT(post_m == pre_m && (!pre_m || post_v == pre_v), "rem: every other binding is untouched");
  V_ASSERT(elem_ledger_ok && owns(t, NS), "rem: removed key and value finalised exactly once, the rest still owned (C05)");

#elif OP == OP_REM_ABSENT
  V_ASSUME(!k_in);
  snapshot(t); expect_throw = KeyError;
  Table_Rem(t, pk);
  V_ASSERT(0, "rem of an absent key must raise KeyError");

#elif OP == OP_GET_ABSENT
  V_ASSUME(!k_in);
  snapshot(t); expect_throw = KeyError;
  Table_Get(t, pk);
  V_ASSERT(0, "get of an absent key must raise KeyError");

#elif OP == OP_GET
  _Bool m = Table_Mem(t, pk);
  V_WITNESS("mem computed");
  V_ASSERT(m == k_in, "mem agrees with the map for every key");
  if (k_in) {
    struct Elem* g = Table_Get(t, pk);
    V_ASSERT(g->val == kv, "get returns the bound value");
    V_ASSERT(type_of(g) == VTYPE, "get returns an object of the value type (C19)");
  }
  V_ASSERT(inv(t, NS) && owns(t, NS), "lookups change nothing");

#elif OP == OP_ITER
  size_t cnt = 0; size_t last_i = 0; _Bool ok = 1;
  var c = Table_Iter_Init(t);
  for (int step = 0; step < NS + 1 && c != Terminal; step++) {
    size_t i = ((char*)c - (char*)t->data) / Table_Step(t);
    if (!(i < NS && c == Table_Key(t, i) && Table_Key_Hash(t, i) != 0 && (cnt == 0 || i > last_i))) ok = 0;
    last_i = i; cnt++;
    c = Table_Iter_Next(t, c);
  }
  V_WITNESS("iterated");
  V_ASSERT(c == Terminal, "forward iteration ends with Terminal");
  V_ASSERT(ok, "forward iteration yields keys of occupied slots, each once");
  V_ASSERT(cnt == n && cnt == Table_Len(t), "forward iteration yields exactly len keys");
  size_t cntb = 0; ok = 1;
  c = Table_Iter_Last(t);
  for (int step = 0; step < NS + 1 && c != Terminal; step++) {
    size_t i = ((char*)c - (char*)t->data) / Table_Step(t);
    if (!(i < NS && c == Table_Key(t, i) && Table_Key_Hash(t, i) != 0 && (cntb == 0 || i < last_i))) ok = 0;
    last_i = i; cntb++;
    c = Table_Iter_Prev(t, c);
  }
  V_ASSERT(c == Terminal && ok && cntb == n, "backward iteration is the exact reverse: len keys, descending slots, then Terminal");

#elif OP == OP_RESIZE
  /* resize(n >= len, n > 0) = rehash to Ideal(n) (the rehash call is the stub); resize below len must raise */
  size_t rn = IN.n;
  V_ASSUME(rn > 0 && rn <= 19);
  if (rn < n) { snapshot(t); expect_throw = FormatError; }
  Table_Resize(t, rn);
  V_WITNESS("resize completed");
  V_ASSERT(rn >= n, "resize below the number of items must raise");
  V_ASSERT(rehash_calls == 1 && rehash_size == (rn <= 4 ? 5 : rn <= 9 ? 11 : 23), "resize: rehash to Ideal(n) requested once");
  V_ASSERT(inv(t, NS) && owns(t, NS), "resize: nothing else touched");

#elif OP == OP_CLEAR_SET
  Table_Resize(t, 0);
  V_ASSERT(Table_Len(t) == 0 && elem_live_count() == 0 && elem_ledger_ok, "resize(0): all keys and values finalised exactly once");
  V_ASSERT(!Table_Mem(t, pk) && Table_Iter_Init(t) == Terminal, "emptied table: no members");
  Table_Set(t, pk, VNEW(v));
  V_WITNESS("set after clear completed");
  V_ASSERT(t->nitems == 1 && Table_Mem(t, pk) && ((struct Elem*)Table_Get(t, pk))->val == v, "an emptied table keeps working");
  V_ASSERT(elem_live_count() == 2 && elem_ledger_ok, "one key and one value live afterwards");

#elif OP == OP_SHOW
  { static uint64_t outobj[2]; show_out = &outobj[1]; show_next_pos = 7;
    int end = Table_Show(t, show_out, 7);
    V_WITNESS("shown");
    size_t n = t->nitems; _Bool ok = show_pos_ok && show_n == (int)(n == 0 ? 2 : 2 * n + 1) && end == 7 + show_n && show_kind[0] == 0 && show_kind[show_n - 1] == 0;
    size_t e = 0;
    for (size_t i = 0; i < NS; i++) if (Table_Key_Hash(t, i) != 0) {
      int at = 1 + 2 * (int)e;
      if (at >= SHOW_MAX || show_kind[at] != 1 || show_a0[at] != Table_Key(t, i) || show_a1[at] != Table_Val(t, i)) ok = 0;
      if (e + 1 < n && (at + 1 >= SHOW_MAX || show_kind[at + 1] != 2)) ok = 0;
      e++;
    }
    V_ASSERT(ok && e == n, "show: every key:value pair exactly once, in slot order, separators strictly between entries, positions threaded"); }
#elif OP == OP_MARK
  { static uint64_t gcobj[2]; mark_gc = &gcobj[1];
    Table_Mark(t, mark_gc, mark_rec);
    V_WITNESS("mark done");
    V_ASSERT(mark_n == 2 * (int)n, "Table_Mark reports exactly two objects per binding");
    _Bool all = 1;
    for (size_t i = 0; i < NS; i++) if (Table_Key_Hash(t, i) != 0) {
      int ck = 0, cv = 0;
      for (int j = 0; j < 2 * NS + 2; j++) if (j < mark_n) { ck += (mark_seen[j] == Table_Key(t, i)); cv += (mark_seen[j] == Table_Val(t, i)); }
      if (ck != 1 || cv != 1) all = 0;
    }
    V_ASSERT(all, "every key and every value of the Table is handed to the collector exactly once (C01: nothing stored in a Table is missed by the mark phase)"); }
#elif OP == OP_DEL
  Table_Del(t);
  V_WITNESS("deleted");
  V_ASSERT(elem_live_count() == 0 && elem_ledger_ok, "del finalises every key and value exactly once (C05)");
#endif
#endif
}
#endif
