/* C02 / C05 (rehash clause, assume-guarantee form): the two halves of every growth / shrink / resize rehash, each cheap:
 *   CASE 1  Table_Rehash(t, NS2) from an ARBITRARY valid NS-slot table with Table_Set_Move replaced by a recorder
 *           (replace-calls): new zeroed storage of the requested size is installed BEFORE the first re-insertion, every
 *           occupied old slot is handed over exactly once, in slot order, with ITS key and ITS value record and move = true,
 *           the old storage is released once, the count restarts at zero (the kernel counts as it inserts)
 *   CASE 2  the kernel with move = true: Table_Set_Move(t, key, val, true) into an arbitrary valid table with room, key and
 *           value being records that live OUTSIDE the table (as in the old storage): the bytes of key and value are moved
 *           whole (the wide value keeps its tag word), their ownership tokens move with them (nothing finalised, nothing
 *           re-issued), layout valid, every other binding untouched.
 * The state construction below is shared text with harness/C02/table_step.c.
 * -- original header follows --
 * C02 (+C05, C11, C12, C19 clauses): one operation of the real Table.c from an ARBITRARY
 * valid state: arbitrary occupancy, arbitrary keys/values, arbitrary (uninterpreted) hash
 * function H[], arbitrary robin-hood layout including wrap-around.  One inductive step covers
 * operation histories of any length for the slot counts explored (base case: table_init).
 *
 *   -DNS=<slots>  -DOP=<operation>  [-DELEM_D=<key domain>]
 */
#include "verif.h"
#ifndef NS
#define NS 5
#endif
#ifndef ELEM_D
#define ELEM_D 6
#endif
struct Inputs {
  uint64_t H[ELEM_D];
  unsigned char occ[NS]; uint64_t home[NS]; int64_t key[NS]; int64_t val[NS];
  int64_t q; int64_t k; int64_t v; uint64_t n;
};
#ifndef V_REPLAY_INPUT_ONLY
#define eq verif_eq
#define hash verif_hash
#define assign verif_assign
#define destruct verif_destruct
#include "Cello.h"
var verif_assign(var, var); var verif_destruct(var); bool verif_eq(var, var); uint64_t verif_hash(var);
#include "Table.c"   /* the real /repo/src/Table.c (-I <repo>/src) */
#undef eq
#undef hash
#undef assign
#undef destruct
#include "env_elem.h"
V_DECLARE_INPUTS

#define OP_SET 1
#define OP_REM 2
#define OP_GET 3
#define OP_ITER 4
#define OP_RESIZE 5
#define OP_CLEAR_SET 6
#define OP_REM_ABSENT 7
#define OP_GET_ABSENT 8
#define OP_INIT 9
#define OP_DEL 10
#define OP_SETMOVE 11
#define OP_REHASH 12
#define OP_MARK 13
#define OP_SHOW 14
/* largest nitems with Table_Ideal_Size(nitems) <= NS (the size schedule itself is checked in OP_INIT) */
/* MAXN_BELOW: largest nitems that fits the next smaller size (-1: none) */
#if NS == 1
#define MAXN 0
#define MAXN_BELOW (-1)
#define NS_UP 5
#define NS_DOWN 0
#elif NS == 5
#define MAXN 4
#define MAXN_BELOW 0
#define NS_UP 11
#define NS_DOWN 1
#elif NS == 11
#define MAXN 9
#define MAXN_BELOW 4
#define NS_UP 23
#define NS_DOWN 5
#elif NS == 23
#define MAXN 19
#define MAXN_BELOW 9
#define NS_UP 53
#define NS_DOWN 11
#endif

/* values are of the WIDER probe type (key 16 bytes, value 24): key and value sizes differ, as they may in any Table */
#define VTYPE ElemV
#define VSZ 24
#define VNEW(v) $(ElemV, (v), 0, ELEMV_TAG(v))
static int64_t slot_key(struct Table* t, size_t i) { return ((struct Elem*)Table_Key(t, i))->val; }
static int64_t slot_val(struct Table* t, size_t i) { return ((struct Elem*)Table_Val(t, i))->val; }

/* representation invariant over ns slots (ns is a compile-time constant at every call site) */
static _Bool inv(struct Table* t, size_t ns) {
  size_t occ = 0;
  if (t->nslots != ns) return 0;
  for (size_t i = 0; i < ns; i++) {
    uint64_t h = Table_Key_Hash(t, i);
    if (h == 0) continue;
    occ++;
    int64_t k = slot_key(t, i);
    if (k < 0 || k >= ELEM_D) return 0;
#if defined(HBITS) || defined(HFULL)
    if (h != ELEM_H[k] % ns + 1) return 0;              /* stored home = hash % nslots + 1 */
#else
    if (h != (ELEM_H[k] < ns ? ELEM_H[k] : ELEM_H[k] % ns) + 1) return 0;
#endif
    uint64_t p = Table_Probe(t, i, h);
    for (size_t d = 0; d < ns; d++) {                    /* robin-hood: no hole, no poorer entry, between home and here */
      if (d >= p) break;
      size_t j = h - 1 + d; if (j >= ns) j -= ns;
      uint64_t hj = Table_Key_Hash(t, j);
      if (hj == 0) return 0;
      if (Table_Probe(t, j, hj) < d) return 0;
    }
    for (size_t j = 0; j < ns; j++) if (j != i && Table_Key_Hash(t, j) != 0 && slot_key(t, j) == k) return 0;
    /* embedded headers carry the element type and the Data allocation class (C19) */
    if (header(Table_Key(t, i))->type != Elem || header(Table_Val(t, i))->type != VTYPE) return 0;
    if (((struct ElemV*)Table_Val(t, i))->extra != ELEMV_TAG(slot_val(t, i))) return 0;        /* the whole value is there, not just its first ksize bytes */
#if CELLO_ALLOC_CHECK == 1
    if (header(Table_Key(t, i))->alloc != (var)AllocData || header(Table_Val(t, i))->alloc != (var)AllocData) return 0;
#endif
  }
  return occ == t->nitems;
}
/* ownership: every stored key and value holds a distinct live token; nothing else is live */
static _Bool owns(struct Table* t, size_t ns) {
  int seen[ELEM_MAXTOK]; for (int i = 0; i < ELEM_MAXTOK; i++) seen[i] = 0;
  int cnt = 0;
  for (size_t i = 0; i < ns; i++) {
    if (Table_Key_Hash(t, i) == 0) continue;
    int64_t a = ((struct Elem*)Table_Key(t, i))->tok, b = ((struct Elem*)Table_Val(t, i))->tok;
    if (a <= 0 || a >= ELEM_MAXTOK || b <= 0 || b >= ELEM_MAXTOK) return 0;
    if (elem_tok_state[a] != 1 || elem_tok_state[b] != 1) return 0;
    if (seen[a] || a == b || seen[b]) return 0;
    seen[a] = 1; seen[b] = 1; cnt += 2;
  }
  return cnt == elem_live_count();
}
static _Bool model_get(struct Table* t, size_t ns, int64_t q, int64_t* v) {
  for (size_t i = 0; i < ns; i++) if (Table_Key_Hash(t, i) != 0 && slot_key(t, i) == q) { *v = slot_val(t, i); return 1; }
  return 0;
}

/* throw oracle */
static var expect_throw = NULL;
static struct Table* snap_t; static unsigned char snap_struct[sizeof(struct Table)];
static unsigned char snap_data[NS * (8 + 2 * sizeof(struct Header) + 16 + 24)]; static int snap_live;
static _Bool words_equal(const void* a, const void* b, size_t nbytes) {
  for (size_t i = 0; i < nbytes / 8; i++) if (((const uint64_t*)a)[i] != ((const uint64_t*)b)[i]) return 0;
  return 1;
}
static void snapshot(struct Table* t) {
  snap_t = t; *(struct Table*)snap_struct = *t;
  if (t->data) for (size_t i = 0; i < NS * Table_Step(t) / 8; i++) ((uint64_t*)snap_data)[i] = ((uint64_t*)t->data)[i];
  snap_live = elem_live_count();
}
void verif_on_throw(void* obj) {
  V_ASSERT(expect_throw != NULL, "operation raised an exception although its arguments are in contract");
  if (expect_throw == NULL) return;
  V_ASSERT(obj == expect_throw, "the documented exception is raised (KeyError for an absent key)");
  if (obj != expect_throw) return;      /* keeps the state comparison out of every other throw site */
  V_ASSERT(words_equal(snap_struct, snap_t, sizeof(struct Table)), "failed operation leaves the Table struct unchanged");
  if (snap_t->data) V_ASSERT(words_equal(snap_data, snap_t->data, NS * Table_Step(snap_t)), "failed operation leaves the slot storage unchanged");
  V_ASSERT(snap_live == elem_live_count() && elem_ledger_ok, "failed operation finalises nothing");
  V_WITNESS_OPT("throw path reached");
}

/* assume-guarantee split: in the SET / REM / RESIZE obligations calls to Table_Rehash are redirected here
 * (goto-instrument --replace-calls); Table_Rehash itself is discharged by the OP_REHASH obligations for every
 * pair of sizes on the schedule.  The stub records the request; the harness checks it against the schedule. */
static int rehash_calls = 0; static size_t rehash_size = 0;
void verif_rehash_stub(struct Table* t, size_t new_size) { rehash_calls++; rehash_size = new_size; }

/* Mark instance: the collector's callback must be handed every key and every value exactly once */
static var mark_seen[2 * NS + 2]; static int mark_n = 0; static var mark_gc;
static void mark_rec(var gc, void* p) { V_ASSERT(gc == mark_gc, "the collector handle is passed through"); if (mark_n < 2 * NS + 2) mark_seen[mark_n] = p; mark_n++; }

/* Show instance (C14: "for a container: its elements' own show text, each once, in iteration order"): print_to_with is
 * a recorder here (replace-calls).  Every call advances the position by one, so the value returned at the end also
 * shows that each call was given the position its predecessor returned. */
#define SHOW_MAX 24
static int show_n = 0; static int show_kind[SHOW_MAX]; static var show_a0[SHOW_MAX], show_a1[SHOW_MAX]; static int show_pos_ok = 1, show_next_pos = 0; static var show_out = NULL;
int v_print_rec(var out, int pos, const char* fmt, var args) {
  if (out != show_out || pos != show_next_pos) show_pos_ok = 0;
  int kind = 0;                                   /* 0 literal, 1 element ("%$" present), 2 separator ", " */
  for (int i = 0; i < 12 && fmt[i]; i++) if (fmt[i] == '%' && fmt[i + 1] == '$') kind = 1;
  if (fmt[0] == ',' && fmt[1] == ' ' && fmt[2] == 0) kind = 2;
  if (show_n < SHOW_MAX) { show_kind[show_n] = kind; struct Tuple* tp = args; show_a0[show_n] = tp->items[0]; show_a1[show_n] = (tp->items[0] != Terminal) ? tp->items[1] : Terminal; }
  show_n++; show_next_pos = pos + 1;
  return pos + 1;
}
static struct Table* arbitrary_table(void) {
  /* the Table object is laid out directly (header + struct); the constructor is covered by OP_INIT */
  static struct { struct Header h; struct Table t; } tobj;
  struct Table* t = header_init(&tobj.h, Table, AllocHeap);
  t->ktype = Elem; t->vtype = VTYPE; t->ksize = 16; t->vsize = VSZ;
  t->sspace0 = calloc(1, Table_Step(t)); t->sspace1 = calloc(1, Table_Step(t));
#if OP == OP_ITER
  /* guard band: cursor arithmetic forms one-before-first pointers (Table_Iter_Prev: curr - step, then
   * curr < first); cbmc orders pointers below an object's start ABOVE it, so the storage gets one
   * record of slack either side.  A cursor pointing into the slack is a harness assertion failure. */
  { char* base = calloc(NS + 2, Table_Step(t)); V_ASSUME(base != NULL); t->data = base + Table_Step(t); }
  t->nslots = NS;
#else
  t->nslots = NS; t->data = calloc(NS, Table_Step(t));
#endif
  V_ASSUME(t->data != NULL && t->sspace0 != NULL && t->sspace1 != NULL);
  size_t n = 0;
  for (size_t i = 0; i < NS; i++) {
    if (IN.occ[i]) {
      char* rec = (char*)t->data + i * Table_Step(t);
      V_ASSUME(IN.home[i] >= 1 && IN.home[i] <= NS);
      *(uint64_t*)rec = IN.home[i];
      struct Elem* k = header_init(rec + 8, Elem, AllocData);
      struct ElemV* v = header_init(rec + 8 + sizeof(struct Header) + 16, VTYPE, AllocData);
      v->extra = ELEMV_TAG(IN.val[i]);
      k->val = IN.key[i]; k->tok = elem_issue();
      v->val = IN.val[i]; v->tok = elem_issue();
      n++;
    }
  }
  t->nitems = n;
  V_ASSUME(inv(t, NS));
#if OP != OP_REHASH
  V_ASSUME(n <= MAXN);                      /* Table_Ideal_Size(nitems) <= nslots: what Table_Set / Table_Rem / Table_Resize maintain */
#endif
  return t;
}

#ifndef NS2
#define NS2 11
#endif
/* CASE 1 recorder */
static int mv_calls = 0; static var mv_key[NS + 1], mv_val[NS + 1]; static _Bool mv_flag_ok = 1, mv_table_ok = 1; static var mv_expect_data = NULL;
void v_set_move_rec(var self, var key, var val, _Bool move) {
  struct Table* t = self;
  if (!move) mv_flag_ok = 0;
  if (t->nslots != NS2 || t->data == NULL || t->nitems != (size_t)mv_calls) mv_table_ok = 0;     /* new size and storage in place, count restarted */
  if (mv_calls <= NS) { mv_key[mv_calls] = key; mv_val[mv_calls] = val; }
  mv_calls++; t->nitems++;
}

V_HARNESS {
  V_LOAD_INPUTS();
  for (int i = 0; i < ELEM_D; i++) { V_ASSUME(IN.H[i] < NS); ELEM_H[i] = IN.H[i]; }
  struct Table* t = arbitrary_table();
  size_t n = t->nitems;
#if CASE == 1
  char* old = t->data; size_t step = Table_Step(t);
  var exp_key[NS], exp_val[NS]; size_t e = 0;
  for (size_t i = 0; i < NS; i++) if (Table_Key_Hash(t, i) != 0) { exp_key[e] = old + i * step + 8 + sizeof(struct Header); exp_val[e] = old + i * step + 8 + sizeof(struct Header) + 16 + sizeof(struct Header); e++; }
  V_ASSERT(e == n, "harness: occupied slots counted");
  Table_Rehash(t, NS2);
  V_WITNESS("rehashed");
  V_ASSERT(t->nslots == NS2 && t->data != NULL && (char*)t->data != old, "rehash installs fresh storage of the requested size");
  { _Bool zero = 1; for (size_t w = 0; w < NS2 * (8 + 2 * sizeof(struct Header) + 16 + VSZ) / 8; w++) if (((uint64_t*)t->data)[w] != 0) zero = 0; V_ASSERT(zero, "the fresh storage starts out empty (all zero)"); }
  V_ASSERT(mv_calls == (int)n && mv_flag_ok && mv_table_ok, "every entry is re-inserted exactly once, as a MOVE, into the new storage, the count restarting at zero");
  { _Bool ok = 1; for (size_t i = 0; i < NS; i++) if (i < n && (mv_key[i] != exp_key[i] || mv_val[i] != exp_val[i])) ok = 0;
    V_ASSERT(ok, "each re-insertion gets the key record and the value record of its own old slot (value located after a key of ksize bytes)"); }
  V_ASSERT(t->nitems == n, "the count is what the re-insertions made it");
#else
  /* CASE 2: a record outside the table, as the old storage holds it */
  V_ASSUME(n < NS);
  int64_t k = IN.k, v = IN.v, q = IN.q; V_ASSUME(k >= 0 && k < ELEM_D && q >= 0 && q < ELEM_D);
  int64_t pre_v = 0; _Bool pre_m = model_get(t, NS, q, &pre_v);
  int64_t kv = 0; _Bool k_in = model_get(t, NS, k, &kv);
  V_ASSUME(!k_in);                                 /* a rehash re-inserts distinct keys into a table that does not hold them yet */
  static struct { struct Header h; struct Elem e; } krec; static struct { struct Header h; struct ElemV e; } vrec;
  struct Elem* pk = header_init(&krec.h, Elem, AllocData); pk->val = k; pk->tok = elem_issue();
  struct ElemV* pv = header_init(&vrec.h, ElemV, AllocData); pv->val = v; pv->tok = elem_issue(); pv->extra = ELEMV_TAG(v);
  int live0 = elem_live_count();
  Table_Set_Move(t, pk, pv, true);
  V_WITNESS("moved in");
  V_ASSERT(inv(t, NS), "move: representation invariant preserved, the whole (wide) value arrived");
  V_ASSERT(t->nitems == n + 1, "move: the count goes up by one");
  { int64_t post_v = 0; _Bool post_m = model_get(t, NS, q, &post_v);
    if (q == k) V_ASSERT(post_m && post_v == v, "move: the key is bound to its value");
    else V_ASSERT(post_m == pre_m && (!pre_m || post_v == pre_v), "move: every other binding is untouched"); }
  V_ASSERT(elem_live_count() == live0 && elem_ledger_ok, "move: nothing is finalised and nothing is constructed -- the elements change place with their tokens");
  { _Bool found = 0; for (size_t i = 0; i < NS; i++) if (Table_Key_Hash(t, i) != 0 && slot_key(t, i) == k) { found = 1;
      V_ASSERT(((struct Elem*)Table_Key(t, i))->tok == pk->tok && ((struct ElemV*)Table_Val(t, i))->tok == pv->tok, "move: the stored key and value are the moved elements themselves (same ownership tokens)"); }
    V_ASSERT(found, "move: the key is stored"); }
#endif
}
#endif
