/* C13 (sequential part): the real Thread.c / Mutex wrappers against pthread contract stubs with symbolic
 * return codes, through the full dispatch (lock/unlock/trylock/with, call/join, current).  Interleavings are
 * NOT explored here (cbmc 6.11 rejects multi-threaded symex of this code); what is decided: each wrapper
 * forwards exactly once to the right pthread object, reports acquisition iff pthread granted it, turns
 * every documented failure code into the documented exception, and current(Thread) / thread-local get/set
 * resolve to the calling thread's own record. */
#include "verif.h"
struct Inputs { int rc_lock, rc_try, rc_unlock, rc_create, rc_join; unsigned char who; int64_t va, vb; };
#ifndef V_REPLAY_INPUT_ONLY
#include "Cello.h"
#include <errno.h>
V_DECLARE_INPUTS
extern int vp_lock_rc, vp_trylock_rc, vp_unlock_rc, vp_create_rc, vp_join_rc;
extern int vp_lock_calls, vp_trylock_calls, vp_unlock_calls, vp_create_calls, vp_join_calls, vp_init_calls, vp_held;
extern pthread_mutex_t* vp_last_mutex; extern void* (*vp_start)(void*); extern void* vp_start_arg; extern pthread_t vp_joined; extern void* vp_specific;
struct Mutex { pthread_mutex_t mutex; };
static var expect_throw = NULL;
void verif_on_throw(void* obj) {
  V_ASSERT(expect_throw != NULL, "unexpected exception");
  if (expect_throw == NULL) return;
  V_ASSERT(obj == expect_throw, "the documented exception for this pthread failure code");
  V_WITNESS_OPT("throw path reached");
}
static var body(var args) { return NULL; }
V_HARNESS {
  V_LOAD_INPUTS();
#if CASE == 1
  /* lock */
  struct Mutex* m = new_raw(Mutex);
  V_ASSERT(vp_init_calls == 1 && vp_last_mutex == &m->mutex, "Mutex_New initialises its own pthread mutex once");
  V_ASSUME(IN.rc_lock == 0 || IN.rc_lock == EINVAL || IN.rc_lock == EDEADLK);
  vp_lock_rc = IN.rc_lock;
  expect_throw = IN.rc_lock == EINVAL ? ValueError : IN.rc_lock == EDEADLK ? ResourceError : NULL;
  lock(m);
  V_WITNESS("lock returned");
  V_ASSERT(IN.rc_lock == 0 && vp_held == 1, "lock returns normally exactly when pthread granted the mutex");
  V_ASSERT(vp_lock_calls == 1 && vp_last_mutex == &m->mutex, "forwarded once, to this Mutex's pthread mutex");
#elif CASE == 2
  /* trylock */
  struct Mutex* m = new_raw(Mutex);
  V_ASSUME(IN.rc_try == 0 || IN.rc_try == EBUSY || IN.rc_try == EINVAL);
  vp_trylock_rc = IN.rc_try;
  expect_throw = IN.rc_try == EINVAL ? ValueError : NULL;
  bool got = trylock(m);
  V_WITNESS("trylock returned");
  V_ASSERT(got == (IN.rc_try == 0) && got == (vp_held == 1), "trylock reports acquisition exactly when pthread granted the mutex");
  V_ASSERT(vp_trylock_calls == 1 && vp_lock_calls == 0 && vp_last_mutex == &m->mutex, "forwarded once, never blocking");
#elif CASE == 3
  /* unlock and the with block */
  struct Mutex* m = new_raw(Mutex);
  vp_lock_rc = 0;
  V_ASSUME(IN.rc_unlock == 0 || IN.rc_unlock == EINVAL || IN.rc_unlock == EPERM);
  vp_unlock_rc = IN.rc_unlock;
  expect_throw = IN.rc_unlock == EINVAL ? ValueError : IN.rc_unlock == EPERM ? ResourceError : NULL;
  int inside = 0;
  with (x in m) { inside++; V_ASSERT(vp_held == 1 && vp_lock_calls == 1 && vp_unlock_calls == 0, "the body of a with block runs with the mutex held"); }
  V_WITNESS("with block left");
  V_ASSERT(inside == 1 && vp_lock_calls == 1 && vp_unlock_calls == 1 && vp_held == 0 && vp_last_mutex == &m->mutex, "with = lock, body once, unlock exactly once on the same mutex");
#elif CASE == 4
  /* call / join */
  struct Thread* t = new_raw(Thread, $(Function, body));
  V_ASSUME(IN.rc_create == 0 || IN.rc_create == EINVAL || IN.rc_create == EAGAIN || IN.rc_create == EBUSY);
  vp_create_rc = IN.rc_create;
  expect_throw = IN.rc_create == EINVAL ? ValueError : IN.rc_create == EAGAIN ? OutOfMemoryError : IN.rc_create == EBUSY ? BusyError : NULL;
  call_with(t, tuple($I(IN.va)));
  V_WITNESS("call returned");
  V_ASSERT(IN.rc_create == 0, "a failed pthread_create is reported");
  V_ASSERT(vp_create_calls == 1 && vp_start_arg == (void*)t && vp_start != NULL, "the thread is created once, running the Cello entry routine on this Thread object");
  V_ASSUME(IN.rc_join == 0 || IN.rc_join == EINVAL || IN.rc_join == ESRCH);
  vp_join_rc = IN.rc_join;
  expect_throw = IN.rc_join == 0 ? NULL : ValueError;
  join(t);
  V_ASSERT(IN.rc_join == 0 && vp_join_calls == 1 && vp_joined == (pthread_t)0x1234, "join returns after pthread_join on the handle pthread_create issued");
#elif CASE == 5
  /* routing: current(Thread) and thread-local values follow the calling thread */
  struct Thread* a = new_raw(Thread); struct Thread* b = new_raw(Thread);
  struct Int* xa = $I(IN.va); struct Int* xb = $I(IN.vb);
  vp_specific = NULL;
  var mainthr = current(Thread);               /* no wrapper registered: the main thread record */
  V_ASSERT(mainthr != (var)a && mainthr != (var)b && current(Thread) == mainthr, "main thread record is created once and reused");
  vp_specific = a; V_ASSERT(current(Thread) == (var)a, "current(Thread) is the calling thread's record");
  set(current(Thread), $S("k"), xa);
  vp_specific = b; V_ASSERT(current(Thread) == (var)b, "another thread sees its own record");
  V_ASSERT(!mem(current(Thread), $S("k")), "a value set by one thread is not visible in another thread's storage");
  set(current(Thread), $S("k"), xb);
  V_WITNESS("routing exercised");
  V_ASSERT(get(b, $S("k")) == (var)xb, "each thread reads back its own value");
  vp_specific = a; V_ASSERT(get(current(Thread), $S("k")) == (var)xa, "the first thread's value is untouched by the second thread's set");
  rem(current(Thread), $S("k")); V_ASSERT(!mem(a, $S("k")) && mem(b, $S("k")), "removal affects only the calling thread");
#endif
}
#endif
