/* C13 (sequential part, thread-local storage): the real Thread_Get / Thread_Set / Thread_Mem / Thread_Rem of
 * src/Thread.c (included here) on TWO thread records -- the main thread's and a worker's -- each with its own
 * storage table.  The tables are abstract maps (get / set / mem / rem redirected with macros) that record every
 * access, so "a thread's thread-local operations touch that thread's storage only and see exactly its contents" is
 * decided for arbitrary contents of both tables: nothing leaks from the main thread to a worker or back.          */
#include "verif.h"
struct Inputs { unsigned char hasA[2], hasB[2]; unsigned char k; unsigned char op; };
#ifndef V_REPLAY_INPUT_ONLY
#include "Cello.h"
#define get v_get
#define set v_set
#define mem v_mem
#define rem v_rem
#define deref v_deref
var v_deref(var);
var v_get(var, var); void v_set(var, var, var); bool v_mem(var, var); void v_rem(var, var);
#include "Thread.c"      /* the real /repo/src/Thread.c */
#undef get
#undef set
#undef mem
#undef rem
#undef deref
V_DECLARE_INPUTS
static uint64_t TAobj[4], TBobj[4], KEYS[2][4], VALS[2][2][4];
#define TA ((var)&TAobj[3])
#define TB ((var)&TBobj[3])
static var keyobj(int k) { return (var)&KEYS[k][3]; }
static var valobj(int tbl, int k) { return (var)&VALS[tbl][k][3]; }
static _Bool has[2][2]; static var stored[2][2];
static int touch[2], absent_get[2], sets[2], rems[2];
static int tbl_of(var t) { return t == TA ? 0 : t == TB ? 1 : -1; }
static int key_of(var k) { return k == keyobj(0) ? 0 : k == keyobj(1) ? 1 : -1; }
static struct { struct Header h; struct Ref r; } refbox;
var v_deref(var x) { V_ASSERT(x == (var)&refbox.r, "Thread_Get dereferences what its storage lookup returned"); return ((struct Ref*)x)->val; }
bool v_mem(var t, var k) { int i = tbl_of(t), j = key_of(k); V_ASSERT(i >= 0 && j >= 0, "harness: known table and key"); if (i < 0 || j < 0) return 0; touch[i]++; return has[i][j]; }
var v_get(var t, var k) { int i = tbl_of(t), j = key_of(k); V_ASSERT(i >= 0 && j >= 0, "harness: known table and key"); if (i < 0 || j < 0) return NULL; touch[i]++;
  struct Ref* r = header_init(&refbox.h, Ref, AllocData);
  if (!has[i][j]) { absent_get[i]++; r->val = NULL; return r; }       /* the real Table raises KeyError here */
  r->val = stored[i][j]; return r; }
void v_set(var t, var k, var v) { int i = tbl_of(t), j = key_of(k); V_ASSERT(i >= 0 && j >= 0, "harness: known table and key"); if (i < 0 || j < 0) return; touch[i]++; sets[i]++; has[i][j] = 1; stored[i][j] = ((struct Ref*)v)->val; }
void v_rem(var t, var k) { int i = tbl_of(t), j = key_of(k); V_ASSERT(i >= 0 && j >= 0, "harness: known table and key"); if (i < 0 || j < 0) return; touch[i]++; rems[i]++; has[i][j] = 0; }
V_NO_THROW_EXPECTED
V_HARNESS {
  V_LOAD_INPUTS();
  static struct { struct Header h; struct Thread t; } mainrec, workrec;
  struct Thread* A = header_init(&mainrec.h, Thread, AllocHeap);
  struct Thread* B = header_init(&workrec.h, Thread, AllocHeap);
  A->tls = TA; A->is_main = true; A->is_running = true;
  B->tls = TB; B->is_main = false; B->is_running = true;
  Thread_Main = A;                       /* the main thread's record exists, as it does in any running program */
  for (int j = 0; j < 2; j++) { has[0][j] = IN.hasA[j] & 1; has[1][j] = IN.hasB[j] & 1; stored[0][j] = valobj(0, j); stored[1][j] = valobj(1, j); }
  int k = IN.k & 1; const int me = ME, other = 1 - ME;      /* the calling thread: main (0) or the worker (1); case split */
  struct Thread* self = ME ? B : A;
  _Bool had = has[me][k]; _Bool other_had0 = has[other][0], other_had1 = has[other][1];
  switch (OPK) {
    case 0: { _Bool m = Thread_Mem(self, keyobj(k)); V_ASSERT(m == had, "mem sees exactly the calling thread's own storage"); break; }
    case 1: { var g = Thread_Get(self, keyobj(k));
              if (had) V_ASSERT(g == valobj(me, k) && absent_get[me] == 0, "get returns the calling thread's own value");
              else V_ASSERT(absent_get[me] == 1, "get of a key the calling thread never set is a lookup miss in ITS storage (KeyError), not another thread's value");
              break; }
    case 2: { var nv = (var)&VALS[0][0][0]; Thread_Set(self, keyobj(k), nv); V_ASSERT(has[me][k] && stored[me][k] == nv && sets[me] == 1, "set stores into the calling thread's own storage"); break; }
    default: { Thread_Rem(self, keyobj(k)); V_ASSERT(!has[me][k] && rems[me] == 1, "rem removes from the calling thread's own storage"); break; }
  }
  V_WITNESS("thread-local operation done");
  V_ASSERT(touch[other] == 0, "a thread-local operation never reads or writes another thread's storage");
  V_ASSERT(has[other][0] == other_had0 && has[other][1] == other_had1 && sets[other] == 0 && rems[other] == 0, "the other thread's storage is unchanged");
}
#endif
