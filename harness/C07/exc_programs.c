/* C07: the real Exception.c (exception_try / exception_throw / exception_catch / exception_try_end /
 * exception_try_fail, Exception_Buffer, Exception_Len, Exception_Error) driven through EVERY try/catch/throw
 * program tree up to a size and nesting bound (table generated per run, structure concrete), with the
 * exception kind of every throw, whether it fires, and the filter set of every catch SYMBOLIC.
 * Reference: a block-structured exception interpreter written in the harness.  Compared: the sequence of
 * events (statement executed, handler entered with which exception object), nesting depth restored,
 * uncaught <=> exit(EXIT_FAILURE).
 * Environment: current(Exception) is a harness record; message formatting is empty; the catch filter tuple
 * is a harness array (len / Iter instance / eq inside Exception.c bound to it, identity comparison);
 * setjmp/longjmp: longjmp records its target, the interpreter performs the transfer to the try whose
 * buffer that is (a target that is not a live enclosing try is an assertion failure). */
#include "verif.h"
#define MAXN 8
struct Inputs { unsigned char kind[MAXN]; unsigned char filter[MAXN]; unsigned char fire[MAXN]; };
#ifndef V_REPLAY_INPUT_ONLY
#include "Cello.h"
#define current verif_current
#define print_to_with verif_print_to_with
#define eq verif_eq
#define len verif_len
#define instance verif_instance
#define longjmp verif_longjmp
#define exit verif_exit
#define abort verif_abort
#define fprintf(...) ((void)0)
var verif_current(var); int verif_print_to_with(var, int, const char*, var); bool verif_eq(var, var); size_t verif_len(var); var verif_instance(var, var);
void verif_longjmp(jmp_buf env, int val); void verif_exit(int status); void verif_abort(void);
#include "Exception.c"     /* the real /repo/src/Exception.c */
#undef current
#undef print_to_with
#undef eq
#undef len
#undef instance
#undef longjmp
#undef exit
#undef abort
#undef fprintf
#include "gen_programs.h"
V_DECLARE_INPUTS
/* nothing else of the library is linked: the objects Exception.c refers to by name are defined here */
static uint64_t terminal_obj[4], ex_obj[3][4];
#ifndef V_NATIVE
var Terminal = &terminal_obj[3];
#endif

static struct Exception EXC;
var verif_current(var type) { return &EXC; }
bool verif_eq(var a, var b) { return a == b; }
int verif_print_to_with(var out, int pos, const char* fmt, var args) { return pos; }
static var FILT[4];
size_t verif_len(var self) { size_t n = 0; while (n < 3 && FILT[n] != Terminal) n++; return n; }
static var f_init(var self) { return FILT[0]; }
static var f_next(var self, var curr) { return curr == FILT[0] ? FILT[1] : curr == FILT[1] ? FILT[2] : Terminal; }
static struct Iter FILT_ITER = { f_init, f_next, NULL, NULL, NULL };
var verif_instance(var self, var cls) { return &FILT_ITER; }
static jmp_buf* pending = NULL; static int exited = 0, aborted = 0;
void verif_longjmp(jmp_buf env, int val) { V_ASSERT(val == 1, "longjmp value is 1"); pending = (jmp_buf*)env; }
void verif_exit(int status) { exited = 1 + status; }
void verif_abort(void) { aborted = 1; }

static var EX[3];
#define TR 24
static int t_impl[TR], n_impl, t_spec[TR], n_spec;
static void ev_impl(int e) { if (n_impl < TR) t_impl[n_impl] = e; n_impl++; }
static void ev_spec(int e) { if (n_spec < TR) t_spec[n_spec] = e; n_spec++; }
static const signed char (*P)[4];
static int live_frames;

/* drives the real functions in exactly the order the try / catch / throw macros expand to.
 * returns 0 normal completion, 1 unwinding towards `pending`, 2 program terminated */
static int run_impl(int n) {
  while (n >= 0) {
    int kind = P[n][0];
    if (kind == 0) { ev_impl(100 + n); }
    else if (kind == 1) {
      if (IN.fire[n]) {
        exception_throw(EX[IN.kind[n] % 3], "x", NULL);       /* throw(E, "x") */
        if (exited || aborted) return 2;
        V_ASSERT(pending != NULL, "a throw inside a try transfers control");
        return 1;
      } else ev_impl(100 + n);
    } else {
      jmp_buf env; exception_try(&env);                       /* try {            */
      if (aborted) return 2;
      live_frames++;
      int r = run_impl(P[n][1]);                              /*   if (!setjmp)  body */
      if (r == 2) return 2;
      if (r == 1) {
        if (pending != &env) { live_frames--; return 1; }     /* jump goes further out (only possible if the implementation targets a non-innermost buffer) */
        pending = NULL; exception_try_fail();                 /*   else { exception_try_fail(); } */
      }
      exception_try_end();                                    /*   exception_try_end(); } */
      live_frames--;
      if (aborted) return 2;
      unsigned f = IN.filter[n] % 8;                          /* catch (e in <filter>) : empty filter catches everything */
      int k = 0; if (f & 1) FILT[k++] = EX[0]; if (f & 2) FILT[k++] = EX[1]; if (f & 4) FILT[k++] = EX[2]; FILT[k] = Terminal;
      var X = exception_catch(NULL);                          /* for (var e = exception_catch(tuple(...)); e isnt NULL; e = NULL) */
      if (exited || aborted) return 2;
      if (pending != NULL) return 1;                          /* propagated outward */
      if (X != NULL) {
        ev_impl(200 + (X == EX[0] ? 0 : X == EX[1] ? 1 : X == EX[2] ? 2 : 9));
        int r2 = run_impl(P[n][2]); if (r2) return r2;
      }
    }
    n = P[n][3];
  }
  return 0;
}
/* reference semantics of block-structured exceptions: -1 normal, else the kind in flight */
static int run_spec(int n) {
  while (n >= 0) {
    int kind = P[n][0];
    if (kind == 0) ev_spec(100 + n);
    else if (kind == 1) { if (IN.fire[n]) return IN.kind[n] % 3; else ev_spec(100 + n); }
    else {
      int e = run_spec(P[n][1]);
      if (e >= 0) {
        unsigned f = IN.filter[n] % 8;
        if (!(f == 0 || (f & (1u << e)))) return e;          /* not mine: continues outward */
        ev_spec(200 + e);
        int e2 = run_spec(P[n][2]); if (e2 >= 0) return e2;
      }
    }
    n = P[n][3];
  }
  return -1;
}

V_HARNESS {
  V_LOAD_INPUTS();
  EX[0] = &ex_obj[0][3]; EX[1] = &ex_obj[1][3]; EX[2] = &ex_obj[2][3];
  for (int p = 0; p < GP_N; p++) {
    P = GP[p];
    EXC.depth = 0; EXC.active = false; EXC.obj = NULL; EXC.msg = NULL;
    pending = NULL; exited = 0; aborted = 0; n_impl = 0; n_spec = 0; live_frames = 0;
    int r = run_impl(0);
    int e = run_spec(0);
    V_ASSERT(!aborted, "no exception-buffer underflow/overflow abort");
    V_ASSERT(r != 1, "no jump escapes the outermost block");
    V_ASSERT((r == 2) == (e >= 0), "the program is terminated exactly when an exception is handled by nobody");
    if (r == 2) V_ASSERT(exited == 1 + EXIT_FAILURE, "an unhandled exception terminates with a failure status");
    if (r == 0) V_ASSERT(EXC.depth == 0, "nesting depth after the construct is what it was before");
    _Bool same = n_impl == n_spec;
    for (int i = 0; i < TR; i++) if (i < n_impl && i < n_spec && t_impl[i] != t_spec[i]) same = 0;
    V_ASSERT(same, "handlers run exactly for exceptions raised in their own try body, not already handled, matching the filter; the object bound is the one thrown; statements after a handled exception run once");
  }
  V_WITNESS("all programs of the chunk executed");
}
#endif
