/* C16: a heap String under assign / concat / append / resize / rem / mem / len / cmp / hash,
 * against a reference buffer kept by the harness.  Contents are free bytes (full range), so
 * empty / equal / prefix / middle / suffix / overlapping / absent operands all occur.
 * libc: strlen/strcpy/strcat/strstr/strcmp are the ISO-C reference models of lib/vlibc.c;
 * realloc/calloc/free of String.c are the fixed-capacity model lib/env_vcap.c: requested sizes
 * are ghost state, bytes beyond them are nondeterministic slack whose modification is detected.
 *   -DSLEN=<max initial length> -DALEN=<max operand length> -DOP=<op>                         */
#include "verif.h"
#ifndef SLEN
#define SLEN 3
#endif
#ifndef ALEN
#define ALEN 2
#endif
#define RMAX (SLEN + 2 * ALEN + 4)
struct Inputs { unsigned char s[SLEN + 1]; unsigned char a[ALEN + 1]; unsigned char b[ALEN + 1]; uint64_t n; };
#ifndef V_REPLAY_INPUT_ONLY
#include "Cello.h"
V_DECLARE_INPUTS
size_t vcap_size(const void* p); void vcap_check(void); int vcap_live(void);
#define OP_ASSIGN 1
#define OP_CONCAT 2
#define OP_RESIZE 3
#define OP_REM 4
#define OP_MEM 5
#define OP_REM_ABSENT 6
#define OP_SEQ 7
#define OP_ALIAS 8
static var expect_throw = NULL;
static struct String* thrower;
static void check_raw(struct String* s);
void verif_on_throw(void* obj) {
  V_ASSERT(expect_throw != NULL, "operation raised an exception although its arguments are in contract");
  if (expect_throw == NULL) return;
  V_ASSERT(obj == expect_throw, "the documented exception (ValueError) is raised");
  check_raw(thrower);     /* failed operation leaves the String exactly as it was (no dispatcher calls in here) */
  V_WITNESS_OPT("throw path reached");
}
/* reference string */
static unsigned char R[RMAX]; static size_t rn;
static void r_set(const unsigned char* p) { rn = 0; while (p[rn]) { R[rn] = p[rn]; rn++; } R[rn] = 0; }
static void r_cat(const unsigned char* p) { size_t i = 0; while (p[i]) { R[rn++] = p[i++]; } R[rn] = 0; }
static long r_find(const unsigned char* p) {          /* first occurrence or -1 */
  size_t pn = 0; while (p[pn]) pn++;
  for (size_t i = 0; i + pn <= rn; i++) { size_t j = 0; while (j < pn && R[i + j] == p[j]) j++; if (j == pn) return (long)i; }
  return -1;
}
static void check_raw(struct String* s) {
  size_t n = 0; _Bool same = 1;
  for (; n < RMAX; n++) { if ((unsigned char)s->val[n] != R[n]) same = 0; if (R[n] == 0 || s->val[n] == 0) break; }
  V_ASSERT(same && s->val[n] == 0 && R[n] == 0, "String holds exactly the characters of the abstract string, NUL-terminated");
  V_ASSERT(vcap_size(s->val) >= rn + 1, "terminator lies inside the String's own allocation");
  vcap_check();
}
static void check_agrees(struct String* s, const char* what) {
  check_raw(s);
  V_ASSERT(len(s) == rn, "len agrees with strlen of the abstract string");
  V_ASSERT(c_str(s) == s->val, "c_str returns the character storage");
}
V_HARNESS {
  V_LOAD_INPUTS();
  V_ASSUME(IN.s[SLEN] == 0 && IN.a[ALEN] == 0 && IN.b[ALEN] == 0);
  struct String* s = new_raw(String, $S((char*)IN.s));
  thrower = s;
  r_set(IN.s);
  var a = $S((char*)IN.a);
#if OP == OP_ASSIGN
  assign(s, a); r_set(IN.a);
  V_WITNESS("assign done");
  check_agrees(s, "assign");
  V_ASSERT(eq(s, a) && cmp(s, a) == 0 && hash(s) == hash(a), "after assign the String is eq to its source and hashes the same");
#elif OP == OP_CONCAT
  concat(s, a); r_cat(IN.a);
  append(s, $S((char*)IN.b)); r_cat(IN.b);
  V_WITNESS("concat+append done");
  check_agrees(s, "concat");
#elif OP == OP_ALIAS
  /* the argument is the target itself ("equal in value to the target" at its extreme) */
  assign(s, s);
  V_WITNESS("assign(s, s) done");
  check_agrees(s, "assign to itself");
  { unsigned char once[RMAX]; for (size_t i = 0; i < RMAX; i++) once[i] = R[i];
    concat(s, s); r_cat(once);
    check_agrees(s, "concat with itself"); }
#elif OP == OP_RESIZE
  size_t n = IN.n; V_ASSUME(n <= SLEN + 2);
  resize(s, n);
  if (n < rn) { rn = n; R[rn] = 0; }
  V_WITNESS("resize done");
  check_agrees(s, "resize");
  V_ASSERT(vcap_size(s->val) >= n + 1, "resize(n) leaves room for n characters and the terminator");
#elif OP == OP_MEM
  long at = r_find(IN.a);
  V_WITNESS("mem evaluated");
  V_ASSERT(mem(s, a) == (at >= 0), "mem is the substring test of the C library (strstr != NULL)");
  check_agrees(s, "mem");
#elif OP == OP_REM
  long at = r_find(IN.a);
  V_ASSUME(at >= 0);
  rem(s, a);
  { size_t an = 0; while (IN.a[an]) an++; for (size_t i = at; i + an <= rn; i++) R[i] = R[i + an]; rn -= an; R[rn] = 0; }
  V_WITNESS("rem done");
  check_agrees(s, "rem");
#elif OP == OP_REM_ABSENT
  long at = r_find(IN.a);
  V_ASSUME(at < 0);
  expect_throw = ValueError;
  rem(s, a);
  V_ASSERT(0, "rem of an absent substring must raise ValueError");
#elif OP == OP_SEQ
  /* two-operation history: concat then rem of another operand, then assign */
  concat(s, a); r_cat(IN.a);
  long at = r_find(IN.b);
  if (at >= 0) {
    rem(s, $S((char*)IN.b));
    size_t bn = 0; while (IN.b[bn]) bn++; for (size_t i = at; i + bn <= rn; i++) R[i] = R[i + bn]; rn -= bn; R[rn] = 0;
  }
  V_WITNESS("sequence done");
  check_agrees(s, "seq");
  struct String* t = new_raw(String, s);
  V_ASSERT(eq(t, s) && hash(t) == hash(s) && t->val != s->val, "a copy is eq, hashes the same and owns its storage");
  del_raw(t);
#endif
  del_raw(s);
  V_ASSERT(vcap_live() == 0, "del releases the character storage: no String buffer left allocated");
}
#endif
