/* C03 (+C05, C11, C12, C19 clauses): one operation of the real Tree.c from an ARBITRARY valid
 * red-black tree of up to TN-1 nodes: arbitrary shape, colours and keys, given by a symbolic shape
 * descriptor constrained only by the local red-black / search-tree / parent-link conditions.
 * All nodes live in one pool array (Tree.c's calloc/free are the pool allocator below), so node
 * pointers are offsets into a single object instead of pointers to many objects.
 * After the operation an independent bounded in-order walk re-derives: search order, parent links,
 * root black, no red-red, equal black height, count, height bound, key->value map, ownership.
 *   -DTN=<pool nodes> -DOP=<operation>                                                         */
#include "verif.h"
#ifndef TN
#define TN 4
#endif
#define PN (TN - 1)          /* nodes available to the pre-state; node TN-1 is what the operation allocates */
#ifndef ELEM_D
#define ELEM_D 8
#endif
struct Inputs {
  signed char root; unsigned char present[PN]; signed char left[PN], right[PN], parent[PN]; unsigned char red[PN];
  signed char depth[PN], bh[PN]; int64_t key[PN], val[PN], lo[PN], hi[PN];
  int64_t k, v, q;
  unsigned char m2; int64_t k2[PN], v2[PN];
};
#ifndef V_REPLAY_INPUT_ONLY
#define eq verif_eq
#define cmp verif_cmp
#define hash verif_hash
#define assign verif_assign
#define destruct verif_destruct
#define calloc pool_calloc
#define free pool_free
#include "Cello.h"
var verif_assign(var, var); var verif_destruct(var); bool verif_eq(var, var); uint64_t verif_hash(var); int verif_cmp(var, var);
void* pool_calloc(size_t, size_t); void pool_free(void*);
#include "Tree.c"   /* the real /repo/src/Tree.c */
#undef eq
#undef cmp
#undef hash
#undef assign
#undef destruct
#undef calloc
#undef free
#include "env_elem.h"
V_DECLARE_INPUTS

#define NW ((3 * sizeof(var) + 2 * (sizeof(struct Header) + 16)) / 8)
/* every pool node is its OWN cbmc object: a node pointer that depends on symbolic comparisons is then a
 * choice among a few objects at concrete offsets (cheap), not an offset into one big array (each access a
 * byte-level multiplexer over the whole pool: 22 GB of formula for a 3-node removal) */
static uint64_t TN0[NW], TN1[NW], TN2[NW], TN3[NW], TN4[NW], TN5[NW], TN6[NW], TN7[NW], TN8[NW];
static uint64_t* const TPOOL[9] = { TN0, TN1, TN2, TN3, TN4, TN5, TN6, TN7, TN8 };
static int pool_live[TN]; static int pool_allocs = 0, pool_frees = 0;
static var node_at(long i) { return i < 0 ? NULL : (var)TPOOL[i]; }
/* by comparison, not by pointer difference / division */
static long index_of(var p) { for (long i = 0; i < TN; i++) if (p == (var)TPOOL[i]) return i; return -1; }
static _Bool in_pool(var p) { return index_of(p) >= 0; }
void* pool_calloc(size_t a, size_t b) {
  V_ASSERT(a * b == NW * 8, "harness: Tree allocates whole nodes");
  V_ASSERT(pool_allocs == 0, "one operation allocates at most one node");
  pool_allocs++;
  for (size_t w = 0; w < NW; w++) TPOOL[TN - 1][w] = 0;
  pool_live[TN - 1] = 1;
  return TPOOL[TN - 1];
}
void pool_free(void* p) {
  long i = index_of(p);
  V_ASSERT(i >= 0 && pool_live[i], "free only of a live node, exactly once");
  if (i >= 0 && i < TN) pool_live[i] = 0;
  pool_frees++;
}

/* Tagged-pointer accessors.  Tree.c packs the colour into bit 0 of the parent word through
 * pointer->integer->pointer casts; cbmc loses track of what such pointers point to and symex degenerates.
 * In the step obligations calls to the four accessors are redirected (goto-instrument --replace-calls) to
 * the model below: parent word untagged, colour in a ghost array.  That the REAL accessors implement
 * exactly this contract (parent and colour independently stored and retrieved, NULL is black) is the
 * separate obligation OP_ACCESSORS, which runs the real functions on arbitrary 2-aligned words. */
static _Bool GCOL[TN];
var verif_get_parent(struct Tree* m, var node) { return *(var*)((char*)node + 2 * sizeof(var)); }
void verif_set_parent(struct Tree* m, var node, var ptr) { *(var*)((char*)node + 2 * sizeof(var)) = ptr; }
void verif_set_color(struct Tree* m, var node, bool col) { long i = index_of(node); V_ASSERT(i >= 0, "colour set on a pool node"); if (i >= 0) GCOL[i] = col; }
bool verif_get_color(struct Tree* m, var node) { if (node == NULL) return 0; long i = index_of(node); V_ASSERT(i >= 0, "colour read from a pool node"); return i >= 0 ? GCOL[i] : 0; }

#define OP_ACCESSORS 9
#define OP_MARK 10
#define OP_CMPHASH 11
#define OP_SET 1
#define OP_REM 2
#define OP_GET 3
#define OP_ITER 4
#define OP_CLEAR 5
#define OP_REM_ABSENT 6
#define OP_GET_ABSENT 7
#define OP_INIT 8

/* ---- independent validity walk (post-state oracle) ---- */
/* OP_CMPHASH: the abstract other map */
static struct { struct Header h; struct Tree t; } other_box; static var OTHER; static size_t other_n;
static struct { struct Header h; struct Elem e; } K2[PN + 1], V2[PN + 1];
static long k2_index(var p) { for (long i = 0; i < PN; i++) if (p == (var)&K2[i].e) return i; return -1; }
var v2_iter_init(var x) { V_ASSERT(x == OTHER, "harness: iteration of the other map only"); return other_n ? (var)&K2[0].e : Terminal; }
var v2_iter_next(var x, var cur) { long i = k2_index(cur); V_ASSERT(x == OTHER && i >= 0 && (size_t)i < other_n, "the other map is advanced from a cursor it handed out"); return (i >= 0 && (size_t)i + 1 < other_n) ? (var)&K2[i + 1].e : Terminal; }
var v2_get(var x, var key) { long i = k2_index(key); V_ASSERT(x == OTHER && i >= 0 && (size_t)i < other_n, "the other map is asked for its OWN keys only"); return i >= 0 ? (var)&V2[i].e : NULL; }
/* Tree_Get inside Tree_Cmp: only ever asked for the tree's OWN cursor (a key stored in one of its nodes); its contract for
 * arbitrary keys is the tree.get.* obligations */
var v_tree_get(var self, var key) {
  struct Tree* m = self;
  for (long i = 0; i < TN; i++) if (pool_live[i] && Tree_Key(m, node_at(i)) == key) return Tree_Val(m, node_at(i));
  V_ASSERT(0, "Tree_Cmp looks values of the LEFT operand up by the left operand's own cursor");
  return NULL;
}
uint64_t v_hash_tree(var a) { return (uint64_t)((struct Elem*)a)->val * 3; }
static int64_t W_key[TN + 1], W_val[TN + 1]; static size_t W_n; static int W_height;
static _Bool walk(struct Tree* m) {
  var st_node[TN + 2]; int64_t st_lo[TN + 2], st_hi[TN + 2]; int st_black[TN + 2];
  int sp = 0; var cur = m->root; var par = NULL; _Bool par_red = 0;
  int64_t lo = -1, hi = ELEM_D; int black = 0; int leaf_black = -1;
  int seen_tok[ELEM_MAXTOK]; for (int i = 0; i < ELEM_MAXTOK; i++) seen_tok[i] = 0;
  W_n = 0; W_height = 0;
  if (m->root != NULL && Tree_Get_Color(m, m->root)) return 0;                  /* root is black */
  for (int step = 0; step < 2 * TN + 3; step++) {
    if (cur != NULL) {
      if (!in_pool(cur) || !pool_live[index_of(cur)]) return 0;                  /* links stay inside live nodes */
      if (sp >= TN + 1) return 0;
      if (Tree_Get_Parent(m, cur) != par) return 0;                              /* parent link consistent */
      struct Elem* k = Tree_Key(m, cur); struct Elem* v = Tree_Val(m, cur);
      if (!(k->val > lo && k->val < hi)) return 0;                               /* search order (larger keys to the left) */
      _Bool red = Tree_Get_Color(m, cur);
      if (red && par_red) return 0;                                              /* no red node has a red child */
      if (header(k)->type != Elem || header(v)->type != Elem) return 0;          /* embedded headers intact (C19) */
      if (k->tok <= 0 || k->tok >= ELEM_MAXTOK || v->tok <= 0 || v->tok >= ELEM_MAXTOK) return 0;
      if (elem_tok_state[k->tok] != 1 || elem_tok_state[v->tok] != 1 || seen_tok[k->tok] || seen_tok[v->tok] || k->tok == v->tok) return 0;
      seen_tok[k->tok] = 1; seen_tok[v->tok] = 1;
      black += red ? 0 : 1;
      st_node[sp] = cur; st_lo[sp] = lo; st_hi[sp] = hi; st_black[sp] = black; sp++;
      if (sp > W_height) W_height = sp;
      par = cur; par_red = red; lo = k->val; /* hi unchanged */ cur = *Tree_Left(m, cur);
    } else {
      if (leaf_black < 0) leaf_black = black; else if (leaf_black != black) return 0;   /* equal black height */
      if (sp == 0) return 1;
      sp--; var nd = st_node[sp];
      struct Elem* k = Tree_Key(m, nd);
      if (W_n > TN) return 0;
      W_key[W_n] = k->val; W_val[W_n] = ((struct Elem*)Tree_Val(m, nd))->val; W_n++;
      black = st_black[sp]; hi = k->val; lo = st_lo[sp];
      par = nd; par_red = Tree_Get_Color(m, nd); cur = *Tree_Right(m, nd);
    }
  }
  return 0;   /* did not finish within 2n+1 steps: cycle */
}
static _Bool w_get(int64_t q, int64_t* v) { for (size_t i = 0; i < TN + 1; i++) if (i < W_n && W_key[i] == q) { *v = W_val[i]; return 1; } return 0; }
static int max_height(size_t n) { return n == 0 ? 0 : n == 1 ? 1 : n <= 3 ? 3 : n <= 7 ? 6 : 8; }   /* floor(2*log2(n+1)) */

/* ---- arbitrary valid pre-state from the shape descriptor ---- */
#ifdef SHAPED
/* shape (structure + colours) is one of the enumerated red-black shapes (gen_shape.h, generated per
 * obligation); keys and values are symbolic, constrained only by the search order */
#include "gen_shape.h"
static _Bool m_get(int64_t q, int64_t* v) { for (int i = 0; i < SH_N; i++) if (IN.key[i] == q) { *v = IN.val[i]; return 1; } return 0; }
static struct Tree* arbitrary_tree(size_t* count) {
  static struct { struct Header h; struct Tree t; } tobj;
  struct Tree* m = header_init(&tobj.h, Tree, AllocHeap);
  m->ktype = Elem; m->vtype = Elem; m->ksize = 16; m->vsize = 16;
  for (int j = 0; j < SH_N; j++) {
    int i = SH_INORDER[j];
    V_ASSUME(IN.key[i] >= 0 && IN.key[i] < ELEM_D);
    if (j + 1 < SH_N) V_ASSUME(IN.key[i] > IN.key[SH_INORDER[j + 1]]);     /* left subtree holds the larger keys */
  }
  for (int i = 0; i < SH_N; i++) {
    var nd = node_at(i);
    pool_live[i] = 1;
    *Tree_Left(m, nd) = node_at(SH_LEFT[i]); *Tree_Right(m, nd) = node_at(SH_RIGHT[i]);
    *(var*)((char*)nd + 2 * sizeof(var)) = node_at(SH_PARENT[i]); GCOL[i] = SH_RED[i];
    struct Elem* k = header_init((char*)nd + 3 * sizeof(var), Elem, AllocData);
    struct Elem* v = header_init((char*)nd + 3 * sizeof(var) + sizeof(struct Header) + 16, Elem, AllocData);
    k->val = IN.key[i]; k->tok = elem_issue(); v->val = IN.val[i]; v->tok = elem_issue();
  }
  m->root = SH_N ? node_at(SH_ROOT) : NULL; m->nitems = SH_N;
  *count = SH_N;
  return m;
}
#else
static _Bool m_get(int64_t q, int64_t* v) { for (int i = 0; i < PN; i++) if (IN.present[i] && IN.key[i] == q) { *v = IN.val[i]; return 1; } return 0; }
static struct Tree* arbitrary_tree(size_t* count) {
  static struct { struct Header h; struct Tree t; } tobj;
  struct Tree* m = header_init(&tobj.h, Tree, AllocHeap);
  m->ktype = Elem; m->vtype = Elem; m->ksize = 16; m->vsize = 16;
  size_t n = 0;
  V_ASSUME(IN.root >= -1 && IN.root < PN);
  for (int i = 0; i < PN; i++) {
    if (!IN.present[i]) continue;
    n++;
    signed char l = IN.left[i], r = IN.right[i], p = IN.parent[i];
    V_ASSUME(l >= -1 && l < PN && r >= -1 && r < PN && p >= -1 && p < PN && l != i && r != i && p != i);
    V_ASSUME(IN.key[i] >= 0 && IN.key[i] < ELEM_D && IN.lo[i] < IN.key[i] && IN.key[i] < IN.hi[i]);
    V_ASSUME(IN.depth[i] >= 0 && IN.depth[i] < PN && IN.bh[i] >= 0 && IN.bh[i] <= PN);
    if (i == IN.root) { V_ASSUME(p == -1 && IN.depth[i] == 0 && !IN.red[i] && IN.lo[i] == -1 && IN.hi[i] == ELEM_D); }
    else {
      V_ASSUME(p >= 0 && IN.present[p] && IN.depth[i] == IN.depth[p] + 1);
      V_ASSUME((IN.left[p] == i) != (IN.right[p] == i));
      if (IN.left[p] == i) V_ASSUME(IN.lo[i] == IN.key[p] && IN.hi[i] == IN.hi[p]);      /* left subtree: larger keys */
      else V_ASSUME(IN.lo[i] == IN.lo[p] && IN.hi[i] == IN.key[p]);
      V_ASSUME(!(IN.red[i] && IN.red[p]));
    }
    if (l >= 0) V_ASSUME(IN.present[l] && IN.parent[l] == i);
    if (r >= 0) V_ASSUME(IN.present[r] && IN.parent[r] == i && r != l);
    int bl = l >= 0 ? IN.bh[l] : 0, br = r >= 0 ? IN.bh[r] : 0;
    V_ASSUME(bl == br && IN.bh[i] == bl + (IN.red[i] ? 0 : 1));
    /* materialise the node */
    var nd = node_at(i);
    pool_live[i] = 1;
    *Tree_Left(m, nd) = node_at(l); *Tree_Right(m, nd) = node_at(r);
    *(var*)((char*)nd + 2 * sizeof(var)) = node_at(p); GCOL[i] = IN.red[i];
    struct Elem* k = header_init((char*)nd + 3 * sizeof(var), Elem, AllocData);
    struct Elem* v = header_init((char*)nd + 3 * sizeof(var) + sizeof(struct Header) + 16, Elem, AllocData);
    k->val = IN.key[i]; k->tok = elem_issue(); v->val = IN.val[i]; v->tok = elem_issue();
  }
  V_ASSUME((n == 0) == (IN.root == -1));
  if (IN.root >= 0) V_ASSUME(IN.present[IN.root]);
  m->root = node_at(IN.root); m->nitems = n;
  *count = n;
  return m;
}
#endif

static var mark_seen[2 * TN + 2]; static int mark_n = 0; static var mark_gc;
static void mark_rec(var gc, void* p) { V_ASSERT(gc == mark_gc, "the collector handle is passed through"); if (mark_n < 2 * TN + 2) mark_seen[mark_n] = p; mark_n++; }
static var expect_throw = NULL; static uint64_t snap[TN][NW]; static _Bool snap_col[TN]; static struct Tree snap_m; static struct Tree* snap_p; static int snap_live;
void verif_on_throw(void* obj) {
  V_ASSERT(expect_throw != NULL, "operation raised an exception although its arguments are in contract");
  if (expect_throw == NULL) return;
  V_ASSERT(obj == expect_throw, "the documented exception is raised (KeyError for an absent key)");
  if (obj != expect_throw) return;
  _Bool same = snap_p->root == snap_m.root && snap_p->nitems == snap_m.nitems;
  for (int i = 0; i < TN; i++) { if (GCOL[i] != snap_col[i]) same = 0; for (size_t w = 0; w < NW; w++) if (TPOOL[i][w] != snap[i][w]) same = 0; }
  V_ASSERT(same, "failed operation leaves the tree exactly as it was");
  V_ASSERT(snap_live == elem_live_count() && elem_ledger_ok && pool_allocs == 0 && pool_frees == 0, "failed operation finalises, allocates and frees nothing");
  V_WITNESS_OPT("throw path reached");
}
static void snapshot(struct Tree* m) {
  snap_p = m; snap_m = *m; snap_live = elem_live_count();
  for (int i = 0; i < TN; i++) { snap_col[i] = GCOL[i]; for (size_t w = 0; w < NW; w++) snap[i][w] = TPOOL[i][w]; }
}

V_HARNESS {
  V_LOAD_INPUTS();
#if defined(OP) && OP == OP_ACCESSORS
  /* the real Tree_Get_Parent / Tree_Set_Parent / Tree_Set_Color / Tree_Get_Color on one node whose parent
   * word is an arbitrary 2-aligned bit pattern (never dereferenced here) */
  { static uint64_t nodebuf[NW]; var nd = nodebuf; struct Tree* m0 = NULL;
    uintptr_t p0 = (uintptr_t)IN.k & ~(uintptr_t)1, p1 = (uintptr_t)IN.v & ~(uintptr_t)1; _Bool c0 = IN.q & 1, c1 = (IN.q >> 1) & 1;
    nodebuf[2] = p0 | c0;
    V_WITNESS("accessors exercised");
    V_ASSERT((uintptr_t)Tree_Get_Parent(m0, nd) == p0 && Tree_Get_Color(m0, nd) == c0, "real accessors: parent and colour read back from the tagged word");
    Tree_Set_Parent(m0, nd, (var)p1);
    V_ASSERT((uintptr_t)Tree_Get_Parent(m0, nd) == p1 && Tree_Get_Color(m0, nd) == c0, "real Tree_Set_Parent replaces the parent and keeps the colour");
    Tree_Set_Color(m0, nd, c1);
    V_ASSERT((uintptr_t)Tree_Get_Parent(m0, nd) == p1 && Tree_Get_Color(m0, nd) == c1, "real Tree_Set_Color replaces the colour and keeps the parent");
    Tree_Set_Red(m0, nd); V_ASSERT(Tree_Is_Red(m0, nd) && !Tree_Is_Black(m0, nd) && (uintptr_t)Tree_Get_Parent(m0, nd) == p1, "Tree_Set_Red / Is_Red");
    Tree_Set_Black(m0, nd); V_ASSERT(Tree_Is_Black(m0, nd) && !Tree_Is_Red(m0, nd) && (uintptr_t)Tree_Get_Parent(m0, nd) == p1, "Tree_Set_Black / Is_Black");
    V_ASSERT(Tree_Get_Color(m0, NULL) == 0 && Tree_Is_Black(m0, NULL), "NULL is black");
    V_ASSERT(nodebuf[0] == 0 && nodebuf[1] == 0 && nodebuf[3] == 0, "accessors touch only the parent word");
    return; }
#endif
  int64_t k = IN.k, v = IN.v, q = IN.q;
  V_ASSUME(k >= 0 && k < ELEM_D && q >= 0 && q < ELEM_D);
  size_t n = 0;
  struct Tree* m = arbitrary_tree(&n);
  int64_t pre_v = 0; _Bool pre_m = m_get(q, &pre_v);
  int64_t kv = 0; _Bool k_in = m_get(k, &kv);
  struct Elem* pk = $(Elem, k, 0);
#ifdef SELFTEST
  /* the assumed local conditions and the independent walk agree on the pre-state */
  V_WITNESS("pre-state built");
  V_ASSERT(walk(m) && W_n == n, "harness: every assumed pre-state passes the independent red-black walk");
  V_ASSERT(W_height <= max_height(n), "height bound 2*log2(n+1) on the pre-state");
#elif OP == OP_SET
  Tree_Set(m, pk, $(Elem, v, 0));
  V_WITNESS("set completed");
  size_t n2 = n + (k_in ? 0 : 1);
  V_ASSERT(walk(m), "set: still a valid red-black search tree (order, parent links, root black, no red-red, equal black height), every element owned once");
  V_ASSERT(W_n == n2 && m->nitems == n2 && Tree_Len(m) == n2, "set: len counts bindings");
  V_ASSERT(W_height <= max_height(n2), "set: height within 2*log2(n+1)");
  int64_t post_v = 0; _Bool post_m = w_get(q, &post_v);
  if (q == k) V_ASSERT(post_m && post_v == v, "set: the key is bound to the new value");
  else V_ASSERT(post_m == pre_m && (!pre_m || post_v == pre_v), "set: every other binding is untouched");
  V_ASSERT(elem_ledger_ok && elem_live_count() == 2 * (int)n2 && pool_frees == 0 && pool_allocs == (k_in ? 0 : 1), "set: one node allocated for a new key, nothing lost or finalised twice (C05)");
#elif OP == OP_REM
  V_ASSUME(k_in);
  Tree_Rem(m, pk);
  V_WITNESS("rem completed");
  V_ASSERT(walk(m), "rem: still a valid red-black search tree, every remaining element owned once");
  V_ASSERT(W_n == n - 1 && m->nitems == n - 1, "rem: len decreases by one");
  V_ASSERT(W_height <= max_height(n - 1), "rem: height within 2*log2(n+1)");
  int64_t post_v = 0; _Bool post_m = w_get(q, &post_v);
  if (q == k) V_ASSERT(!post_m, "rem: the key is gone");
  else V_ASSERT(post_m == pre_m && (!pre_m || post_v == pre_v), "rem: every other binding is untouched");
  V_ASSERT(elem_ledger_ok && elem_live_count() == 2 * (int)(n - 1) && pool_frees == 1 && pool_allocs == 0, "rem: removed key and value finalised once, one node freed (C05)");
#elif OP == OP_REM_ABSENT
  V_ASSUME(!k_in);
  snapshot(m); expect_throw = KeyError;
  Tree_Rem(m, pk);
  V_ASSERT(0, "rem of an absent key must raise KeyError");
#elif OP == OP_GET_ABSENT
  V_ASSUME(!k_in);
  snapshot(m); expect_throw = KeyError;
  Tree_Get(m, pk);
  V_ASSERT(0, "get of an absent key must raise KeyError");
#elif OP == OP_GET
  _Bool mm = Tree_Mem(m, pk);
  V_WITNESS("mem computed");
  V_ASSERT(mm == k_in, "mem agrees with the map");
  if (k_in) { struct Elem* g = Tree_Get(m, pk); V_ASSERT(g->val == kv && type_of(g) == Elem, "get returns the bound value, typed as the value type"); }
#elif OP == OP_ITER
  V_ASSERT(walk(m) && W_n == n, "harness: pre-state valid");
  { size_t cnt = 0; _Bool ok = 1;
    var c = Tree_Iter_Init(m);
    for (int s = 0; s < TN + 1 && c != Terminal; s++) { if (cnt >= n || ((struct Elem*)c)->val != W_key[cnt]) ok = 0; cnt++; c = Tree_Iter_Next(m, c); }
    V_WITNESS("iterated");
    V_ASSERT(c == Terminal && ok && cnt == n, "forward iteration visits every key once, in strictly monotone order, then Terminal");
    size_t cb = 0; ok = 1;
    c = Tree_Iter_Last(m);
    for (int s = 0; s < TN + 1 && c != Terminal; s++) { if (cb >= n || ((struct Elem*)c)->val != W_key[n - 1 - cb]) ok = 0; cb++; c = Tree_Iter_Prev(m, c); }
    V_ASSERT(c == Terminal && ok && cb == n, "backward iteration is the exact reverse"); }
#elif OP == OP_CMPHASH
  /* C09 / C10: Tree_Cmp against an ABSTRACT other ordered map (a sequence of (key, value) pairs handed out through
   * the redirected iter_init / iter_next / get): the induced lexicographic order over (key, then value) in iteration
   * order, the shorter sequence first on a common prefix; Tree_Hash = XOR fold of key and value hashes */
  V_ASSERT(walk(m) && W_n == n, "harness: pre-state valid");
  { size_t m2 = IN.m2; V_ASSUME(m2 <= PN);
    OTHER = header_init(&other_box.h, Tree, AllocHeap);
    for (size_t i = 0; i < PN; i++) { struct Elem* a = header_init(&K2[i].h, Elem, AllocData); a->val = IN.k2[i]; struct Elem* b = header_init(&V2[i].h, Elem, AllocData); b->val = IN.v2[i]; }
    other_n = m2;
    int want = 0;
    for (size_t i = 0; i < PN + 1 && want == 0; i++) {
      if (i >= n && i >= m2) break;
      if (i >= n) { want = -1; break; }
      if (i >= m2) { want = 1; break; }
      if (W_key[i] < IN.k2[i]) want = -1; else if (W_key[i] > IN.k2[i]) want = 1;
      else if (W_val[i] < IN.v2[i]) want = -1; else if (W_val[i] > IN.v2[i]) want = 1;
    }
    int c1 = Tree_Cmp(m, OTHER);
    V_WITNESS("compared");
    V_ASSERT(c1 == want, "Tree cmp is the lexicographic order over (key, then value) in iteration order, the shorter map first on a common prefix");
    uint64_t hw = 0; for (size_t i = 0; i < PN; i++) if (i < n) hw ^= (uint64_t)W_key[i] * 3 ^ (uint64_t)W_val[i] * 3;
    V_ASSERT(Tree_Hash(m) == hw, "Tree hash is the XOR fold of the key and value hashes");
    V_ASSERT(walk(m) && W_n == n, "comparison and hashing change nothing"); }
#elif OP == OP_MARK
  { static uint64_t gcobj[2]; mark_gc = &gcobj[1];
    Tree_Mark(m, mark_gc, mark_rec);
    V_WITNESS("mark done");
    V_ASSERT(mark_n == 2 * (int)n, "Tree_Mark reports exactly two objects per binding");
    _Bool all = 1;
    for (int i = 0; i < TN - 1; i++) if (i < (int)n) {
      int ck = 0, cv = 0;
      for (int j = 0; j < 2 * TN + 2; j++) if (j < mark_n) { ck += (mark_seen[j] == Tree_Key(m, node_at(i))); cv += (mark_seen[j] == Tree_Val(m, node_at(i))); }
      if (ck != 1 || cv != 1) all = 0;
    }
    V_ASSERT(all, "every key and every value of the Tree is handed to the collector exactly once (C01)"); }
#elif OP == OP_CLEAR
  Tree_Resize(m, 0);
  V_WITNESS("cleared");
  V_ASSERT(m->root == NULL && m->nitems == 0 && elem_live_count() == 0 && elem_ledger_ok && pool_frees == (int)n, "resize(0): every key and value finalised once, every node freed once");
  Tree_Set(m, pk, $(Elem, v, 0));
  V_ASSERT(walk(m) && W_n == 1 && W_key[0] == k && W_val[0] == v, "an emptied tree keeps working");
#endif
}
#endif
