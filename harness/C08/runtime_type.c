/* C08 / C18: a RUN-TIME type built by the real Type_New (src/Type.c included here, so that the record can live in a
 * static buffer: records built in malloc'ed memory make the dispatcher unfoldable for cbmc) from a name, a size and
 * K instances given in a symbolic ORDER; afterwards every class looked up -- cold, warm, in either order, through
 * Type_Scan, Type_Instance (cache), type_implements -- yields exactly the instance given for it, or none.
 * Run under the default, CELLO_CACHE=0 and CELLO_NDEBUG configurations (the record layout depends on them). */
#include "verif.h"
struct Inputs { unsigned char order; int64_t size; };
#ifndef V_REPLAY_INPUT_ONLY
#include "Cello.h"
#include "Type.c"     /* the real /repo/src/Type.c */
V_DECLARE_INPUTS
V_NO_THROW_EXPECTED
static void f1(void) {} static void f2(void) {}
static struct { struct Header h; struct Type t[CELLO_NBUILTINS + CELLO_MAX_INSTANCES + 1]; } rt;
V_HARNESS {
  V_LOAD_INPUTS();
  var T = header_init(&rt.h, Type, AllocHeap);
  V_ASSUME(IN.size > 0 && IN.size < 4096);
  var i_size = $(Size, (size_t(*)(void))f1);
  var i_len = $(Len, (size_t(*)(var))f2);
  var i_hash = $(Hash, (uint64_t(*)(var))f1);
  switch (IN.order % 3) {      /* the instance list in different orders */
    case 0: Type_New(T, tuple($S("Pair"), $I(IN.size), i_size, i_len, i_hash)); break;
    case 1: Type_New(T, tuple($S("Pair"), $I(IN.size), i_hash, i_size, i_len)); break;
    default: Type_New(T, tuple($S("Pair"), $I(IN.size), i_len, i_hash, i_size)); break;
  }
  V_WITNESS("type built");
  V_ASSERT(Type_Builtin_Name(T) != NULL && strcmp(Type_Builtin_Name(T), "Pair") == 0, "the run-time type carries its name");
  V_ASSERT(Type_Builtin_Size(T) == (size_t)IN.size, "and its size");
  /* cold, in one order */
  V_ASSERT(Type_Instance(T, Hash) == i_hash, "Hash: cold lookup through the cache path");
  V_ASSERT(Type_Scan(T, Len) == i_len, "Len: cold scan");
  V_ASSERT(Type_Instance(T, Size) == i_size, "Size: cold lookup");
  V_ASSERT(Type_Instance(T, Cmp) == NULL && Type_Scan(T, Show) == NULL && !Type_Implements(T, New), "classes not given are not implemented");
  /* warm, other order */
  V_ASSERT(Type_Instance(T, Size) == i_size && Type_Instance(T, Len) == i_len && Type_Instance(T, Hash) == i_hash, "warm lookups return the same instances");
  V_ASSERT(Type_Implements(T, Size) && Type_Implements(T, Len) && Type_Implements(T, Hash) && Type_Instance(T, Cmp) == NULL, "type_implements agrees, earlier lookups do not change later ones");
  V_ASSERT(Type_Method_At_Offset(T, Len, offsetof(struct Len, len), "len") == i_len, "method lookup finds the member");
}
#endif
