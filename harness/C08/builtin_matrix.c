/* C08 (i): for EVERY built-in type and EVERY class declared by the current Cello.h (tables generated
 * on each run), type_instance / type_implements / instance agree with an independent raw scan of the
 * type's static record by class name -- on the first (cold) lookup, on the repeated (warm) lookup, and
 * again after every other class has been looked up in between (cache slots filled in a different order).
 * Types are split into chunks (-DCHUNK/-DNCHUNK) to keep single cbmc runs small. */
#include "verif.h"
struct Inputs { int dummy; };
#ifndef V_REPLAY_INPUT_ONLY
#include "Cello.h"
#include "gen_types.h"
V_DECLARE_INPUTS
V_NO_THROW_EXPECTED
#ifndef CHUNK
#define CHUNK 0
#endif
#ifndef NCHUNK
#define NCHUNK 1
#endif
/* independent lookup: layout of a static type record as written by the Cello() macro:
 * [cache entries] {NULL,"__Name",name} {NULL,"__Size",size} {cls,name,inst}* {NULL,NULL,NULL} */
static int streq(const char* a, const char* b) { int i = 0; while (a[i] == b[i]) { if (!a[i]) return 1; i++; } return 0; }
static var raw_scan(var type, const char* cname) {
  var* w = (var*)type + CELLO_CACHE_NUM + 6;
  for (int i = 0; i < 40; i++) {
    if (w[3 * i + 1] == NULL) return NULL;
    if (streq((const char*)w[3 * i + 1], cname)) return w[3 * i + 2];
  }
  return NULL;
}
V_HARNESS {
  V_LOAD_INPUTS();
  gen_fill();
  int checked = 0;
  for (int ti = 0; ti < GEN_NTYPES; ti++) {
    if (ti % NCHUNK != CHUNK) continue;
    var T = gen_types[ti];
    V_ASSERT(type_of(T) == Type, "every built-in type object has type Type");
    for (int ci = 0; ci < GEN_NCLASSES; ci++) {
      var C = gen_classes[ci];
      var want = raw_scan(T, gen_class_names[ci]);
      var cold = type_instance(T, C);
      var warm = type_instance(T, C);
      V_ASSERT(cold == want, "cold lookup returns exactly the instance the type declares for the class (or NULL)");
      V_ASSERT(warm == want, "warm lookup returns the same");
      V_ASSERT(type_implements(T, C) == (want != NULL), "type_implements agrees");
      checked++;
    }
    /* a second sweep in reverse class order: results must not depend on lookup history */
    for (int ci = GEN_NCLASSES - 1; ci >= 0; ci--) {
      V_ASSERT(type_instance(T, gen_classes[ci]) == raw_scan(T, gen_class_names[ci]), "lookup after all other classes were looked up returns the same");
    }
  }
  V_WITNESS("matrix checked");
  V_ASSERT(checked > 0, "harness: chunk not empty");
}
#endif
