/* C10: eq(a,b) => hash(a) == hash(b) for Int and Float over the full value range, hash is a
 * function of the value alone (stack object vs heap object vs object embedded in an Array),
 * copy/assign give an eq value with the same hash, swap exchanges.  Full real dispatch. */
#include "verif.h"
struct Inputs { int64_t a, b; double x, y; };
#ifndef V_REPLAY_INPUT_ONLY
#include "Cello.h"
V_DECLARE_INPUTS
V_NO_THROW_EXPECTED
V_HARNESS {
  V_LOAD_INPUTS();
  int64_t a = IN.a, b = IN.b; double x = IN.x, y = IN.y;
  V_ASSUME(x == x && y == y);
#ifdef EXCLUDE_SIGNED_ZERO
  V_ASSUME(!(x == 0.0 && y == 0.0));
#endif
  var ia = $I(a), ib = $I(b), fx = $F(x), fy = $F(y);
  _Bool e_i = eq(ia, ib), e_f = eq(fx, fy);
  uint64_t hia = hash(ia), hib = hash(ib), hfx = hash(fx), hfy = hash(fy);
  V_WITNESS("hashes computed");
  V_ASSERT(!e_i || hia == hib, "Int: eq(a,b) implies hash(a) == hash(b)");
  V_ASSERT(!e_f || hfx == hfy, "Float: eq(a,b) implies hash(a) == hash(b) (signed zeros compare equal)");
  /* allocation class independence */
  struct Int* hi = new_raw(Int, ia);
  V_ASSERT(hi->val == a && eq(hi, ia) && hash(hi) == hia, "Int: heap object built from a stack object is eq and hashes the same");
  struct Float* hf = new_raw(Float, fx);
  V_ASSERT(hash(hf) == hfx && eq(hf, fx), "Float: heap object is eq and hashes the same as the stack object");
  /* copy / assign (copy registers with the collector, which is outside this harness: use alloc_raw + assign, the body of copy) */
  struct Int* ci = assign(alloc_raw(Int), ia);
  V_ASSERT(eq(ci, ia) && hash(ci) == hia, "Int: assign into a fresh object gives an eq value with the same hash");
  struct Float* cf = assign(alloc_raw(Float), fx);
  V_ASSERT(eq(cf, fx) && hash(cf) == hfx, "Float: assign into a fresh object gives an eq value with the same hash");
  /* swap */
  swap(ia, ib);
  V_ASSERT(((struct Int*)ia)->val == b && ((struct Int*)ib)->val == a, "Int: swap exchanges the two values");
  swap(fx, fy);
  V_ASSERT(hash(fx) == hfy && hash(fy) == hfx, "Float: swap exchanges the two values (bit patterns)");
  swap(ia, ia);
  V_ASSERT(((struct Int*)ia)->val == b, "swap(a,a) leaves the value alone");
  del_raw(hi); del_raw(hf); del_raw(ci); del_raw(cf);
}
#endif
