/* C10: String hash depends on the characters only; copy/assign/swap; Type hash by name.
 * Symbolic NUL-terminated content of up to SLEN bytes. */
#include "verif.h"
#ifndef SLEN
#define SLEN 4
#endif
struct Inputs { unsigned char a[SLEN + 1]; unsigned char b[SLEN + 1]; uint64_t r[8]; };
#ifndef V_REPLAY_INPUT_ONLY
#include "Cello.h"
V_DECLARE_INPUTS
V_NO_THROW_EXPECTED
#ifdef UFHASH
/* hash_data as an UNINTERPRETED function (replace-calls): an arbitrary value per distinct (bytes, length), the same value
 * for the same (bytes, length).  hash_data itself is decided against the reference MurmurHash64A in the hash_data.*
 * obligations; what is decided here is what the String / Type Hash instances hand to it. */
#define UFMAX 8
static unsigned char uf_bytes[UFMAX][16]; static size_t uf_len[UFMAX]; static int uf_n = 0;
uint64_t v_hash_data(const void* data, size_t len) {
  V_ASSERT(len <= 16, "harness: hashed runs are short here");
  const unsigned char* p = data;
  for (int k = 0; k < UFMAX; k++) if (k < uf_n && uf_len[k] == len) { _Bool same = 1; for (size_t i = 0; i < 16; i++) if (i < len && uf_bytes[k][i] != p[i]) same = 0; if (same) return IN.r[k]; }
  V_ASSERT(uf_n < UFMAX, "harness: enough slots for distinct hash arguments");
  if (uf_n < UFMAX) { uf_len[uf_n] = len; for (size_t i = 0; i < 16; i++) if (i < len) uf_bytes[uf_n][i] = p[i]; uf_n++; return IN.r[uf_n - 1]; }
  return 0;
}
#endif
#ifdef EXACT
/* strlen as String_Hash / String_Len see it (replace-calls): for the strings of this harness the length is the compile-time case
 * EXACT, checked against the bytes; a concrete length lets the two hash computations fold into the same expression */
static const char* twin_p = NULL;
size_t v_strlen(const char* p) {
  if (p == (const char*)IN.a || p == twin_p) { size_t n = 0; for (; n < SLEN + 1; n++) if (p[n] == 0) break; V_ASSERT(n == EXACT, "harness: the string has the length of this case"); return EXACT; }
  size_t n = 0; while (p[n]) n++; return n;       /* every other string (type and class names): the ordinary definition */
}
#endif
V_HARNESS {
  V_LOAD_INPUTS();
  V_ASSUME(IN.a[SLEN] == 0 && IN.b[SLEN] == 0);
#ifdef EXACT    /* case split on the length of the first string: both hash computations then run over the same number of bytes */
  for (int i = 0; i < SLEN; i++) { if (i < EXACT) V_ASSUME(IN.a[i] != 0); else V_ASSUME(IN.a[i] == 0); }
#endif
  char twin[SLEN + 1];
  for (int i = 0; i <= SLEN; i++) twin[i] = (char)IN.a[i];
#ifdef EXACT
  twin_p = twin;
#endif
  var sa = $S((char*)IN.a), st = $S(twin), sb = $S((char*)IN.b);
  uint64_t ha = hash(sa);
  V_WITNESS("string hash computed");
  V_ASSERT(eq(sa, st) && hash(st) == ha, "String: same characters at a different address are eq and hash the same");
#ifdef EXACT
  size_t n = EXACT;
#else
  size_t n = 0; while (IN.a[n]) n++;
#endif
  V_ASSERT(ha == hash_data(IN.a, n), "String: hash is hash_data over exactly the len characters (terminator excluded)");
#ifdef LIGHT
  V_ASSERT(hash(Int) == hash_data("Int", 3) && hash(String) == hash_data("String", 6), "Type: hash is hash_data of the name");
  return;
#endif
  struct String* hs = new_raw(String, sa);
  V_ASSERT(hs->val != (char*)IN.a && eq(hs, sa) && hash(hs) == ha && len(hs) == n, "String: heap copy is eq, same hash, same len, own storage");
  struct String* as = new_raw(String);
  assign(as, sa);
  V_ASSERT(eq(as, sa) && hash(as) == ha, "String: assign gives an eq value with the same hash");
  /* swap exchanges the values (pointer swap of the two heap strings) */
  struct String* hb = new_raw(String, sb);
  uint64_t hbh = hash(hb);
  swap(hs, hb);
  V_ASSERT(eq(hs, sb) && eq(hb, sa) && hash(hs) == hbh && hash(hb) == ha, "String: swap exchanges the two values");
  del_raw(hs); del_raw(as); del_raw(hb);
  /* Type: hash by name */
  V_ASSERT(hash(Int) == hash_data("Int", 3) && hash(String) == hash_data("String", 6), "Type: hash is hash_data of the name");
}
#endif
