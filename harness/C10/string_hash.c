/* C10: String hash depends on the characters only; copy/assign/swap; Type hash by name.
 * Symbolic NUL-terminated content of up to SLEN bytes. */
#include "verif.h"
#ifndef SLEN
#define SLEN 4
#endif
struct Inputs { unsigned char a[SLEN + 1]; unsigned char b[SLEN + 1]; };
#ifndef V_REPLAY_INPUT_ONLY
#include "Cello.h"
V_DECLARE_INPUTS
V_NO_THROW_EXPECTED
V_HARNESS {
  V_LOAD_INPUTS();
  V_ASSUME(IN.a[SLEN] == 0 && IN.b[SLEN] == 0);
  char twin[SLEN + 1];
  for (int i = 0; i <= SLEN; i++) twin[i] = (char)IN.a[i];
  var sa = $S((char*)IN.a), st = $S(twin), sb = $S((char*)IN.b);
  uint64_t ha = hash(sa);
  V_WITNESS("string hash computed");
  V_ASSERT(eq(sa, st) && hash(st) == ha, "String: same characters at a different address are eq and hash the same");
  size_t n = 0; while (IN.a[n]) n++;
  V_ASSERT(ha == hash_data(IN.a, n), "String: hash is hash_data over exactly the len characters (terminator excluded)");
#ifdef LIGHT
  V_ASSERT(hash(Int) == hash_data("Int", 3) && hash(String) == hash_data("String", 6), "Type: hash is hash_data of the name");
  return;
#endif
  struct String* hs = new_raw(String, sa);
  V_ASSERT(hs->val != (char*)IN.a && eq(hs, sa) && hash(hs) == ha && len(hs) == n, "String: heap copy is eq, same hash, same len, own storage");
  struct String* as = new_raw(String);
  assign(as, sa);
  V_ASSERT(eq(as, sa) && hash(as) == ha, "String: assign gives an eq value with the same hash");
  /* swap exchanges the values (pointer swap of the two heap strings) */
  struct String* hb = new_raw(String, sb);
  uint64_t hbh = hash(hb);
  swap(hs, hb);
  V_ASSERT(eq(hs, sb) && eq(hb, sa) && hash(hs) == hbh && hash(hb) == ha, "String: swap exchanges the two values");
  del_raw(hs); del_raw(as); del_raw(hb);
  /* Type: hash by name */
  V_ASSERT(hash(Int) == hash_data("Int", 3) && hash(String) == hash_data("String", 6), "Type: hash is hash_data of the name");
}
#endif
