/* C10: hash_data(data, n) is MurmurHash64A of exactly the n bytes at data: differential against
 * an independently written reference (bytes assembled little-endian by shifts, tail by loop), for
 * a buffer of length LEN placed at alignment offset OFF inside a larger buffer whose other bytes
 * are free too (so a read outside [data, data+n) would change the result or trip --bounds-check). */
#include "verif.h"
#ifndef LEN
#define LEN 8
#endif
#ifndef OFF
#define OFF 0
#endif
struct Inputs { unsigned char buf[LEN + 16]; unsigned char other[LEN + 16]; };
#ifndef V_REPLAY_INPUT_ONLY
#include "Cello.h"
V_DECLARE_INPUTS
V_NO_THROW_EXPECTED
static uint64_t ref_murmur(const unsigned char* p, size_t n) {
  const uint64_t m = 0xc6a4a7935bd1e995ULL;
  uint64_t h = 0xCe110ULL ^ (n * m);
  size_t blocks = n / 8;
  for (size_t i = 0; i < blocks; i++) {
    uint64_t k = 0;
    for (int j = 7; j >= 0; j--) k = (k << 8) | p[i * 8 + j];
    k *= m; k ^= k >> 47; k *= m;
    h ^= k; h *= m;
  }
  size_t tail = n & 7;
  if (tail) {
    uint64_t t = 0;
    for (size_t j = tail; j > 0; j--) t = (t << 8) | p[blocks * 8 + j - 1];
    h ^= t; h *= m;
  }
  h ^= h >> 47; h *= m; h ^= h >> 47;
  return h;
}
V_HARNESS {
  V_LOAD_INPUTS();
  /* exact-size heap copy: any read before or after the n bytes is an out-of-bounds access */
  unsigned char* exact = malloc(LEN ? LEN : 1);
  V_ASSUME(exact != NULL);
  for (int i = 0; i < LEN; i++) exact[i] = IN.buf[OFF + i];
  uint64_t h1 = hash_data(IN.buf + OFF, LEN);
  uint64_t h2 = hash_data(exact, LEN);
  V_WITNESS("hash_data computed");
  V_ASSERT(h1 == ref_murmur(IN.buf + OFF, LEN), "hash_data equals the reference MurmurHash64A of the same bytes");
  V_ASSERT(h1 == h2, "hash_data is a function of the bytes alone (address, alignment and neighbours do not matter)");
  /* same bytes inside a different neighbourhood */
  for (int i = 0; i < LEN; i++) IN.other[OFF + i] = IN.buf[OFF + i];
  V_ASSERT(hash_data(IN.other + OFF, LEN) == h1, "bytes outside [data, data+n) do not influence the hash");
  free(exact);
}
#endif
