/* C10 / C05 clauses on plain structs and the pointer types, through the real dispatch:
 *  CASE 1 (C10): swap and assign of plain structs WITHOUT their own Swap/Assign instance (default memswap / memcpy
 *           branches) of 24, 72 and 136 bytes, symbolic contents: swap exchanges the two values completely, assign
 *           yields an equal value (eq, hash), the source is untouched
 *  CASE 2 (C10): Ref: assign from a plain object refers to it; assign from a Ref / Box refers to what THAT refers to
 *           (one level, also when the referent is itself a Ref); the result is eq to the source Ref and hashes the same
 *  CASE 3 (C05): Box owns its pointee whatever the Box's own allocation class (stack, heap, embedded): destruct hands
 *           the pointee to del exactly once and clears the Box (del is a recorder here)                              */
#include "verif.h"
struct Inputs { unsigned char a[136]; unsigned char b[136]; unsigned char kind; };
#ifndef V_REPLAY_INPUT_ONLY
#include "Cello.h"
V_DECLARE_INPUTS
V_NO_THROW_EXPECTED
struct S24 { unsigned char d[24]; }; struct S72 { unsigned char d[72]; }; struct S136 { unsigned char d[136]; };
static var S24 = Cello(S24); static var S72 = Cello(S72); static var S136 = Cello(S136);
static int n_del = 0; static var del_arg[2];
void v_del(var x) { if (n_del < 2) del_arg[n_del] = x; n_del++; }
#define SWAPCHECK(T, N) do { \
    struct T* x = $(T); struct T* y = $(T); struct T* z = $(T); \
    for (int i = 0; i < N; i++) { x->d[i] = IN.a[i]; y->d[i] = IN.b[i]; z->d[i] = 0x5A; } \
    swap(x, y); \
    _Bool ok = 1; for (int i = 0; i < N; i++) if (x->d[i] != IN.b[i] || y->d[i] != IN.a[i]) ok = 0; \
    V_ASSERT(ok, "swap exchanges the two values completely (default branch, " #N " bytes)"); \
    assign(z, x); \
    ok = 1; for (int i = 0; i < N; i++) if (z->d[i] != IN.b[i] || x->d[i] != IN.b[i]) ok = 0; \
    V_ASSERT(ok, "assign copies the whole value and leaves the source alone (default branch, " #N " bytes)"); \
    V_ASSERT(eq(z, x) && hash(z) == hash(x), "the assigned value is eq to its source and hashes the same"); \
  } while (0)
V_HARNESS {
  V_LOAD_INPUTS();
#if CASE == 1
#if SZ == 24
  SWAPCHECK(S24, 24);
#elif SZ == 72
  SWAPCHECK(S72, 72);
#else
  SWAPCHECK(S136, 136);
#endif
  V_WITNESS("swapped and assigned");
#elif CASE == 2
  struct Int* x = $I(7);
  struct Ref* inner = $(Ref, x);
  struct Ref* outer = $(Ref, inner);      /* a Ref whose referent is itself a Ref */
  struct Ref* r = $(Ref, NULL);
#if SUB == 0
  assign(r, x);      V_ASSERT(r->val == (var)x, "Ref assigned from a plain object refers to it");
  assign(r, inner);  V_ASSERT(r->val == (var)x, "Ref assigned from a Ref refers to what that Ref refers to");
#elif SUB == 1
  assign(r, outer);  V_ASSERT(r->val == (var)inner, "Ref assigned from a Ref of a Ref follows ONE level");
  V_ASSERT(eq(r, outer), "the assigned Ref is eq to its source (chain)");
  V_ASSERT(hash(r) == hash(outer), "and hashes the same");
#elif SUB == 2
  struct Box* bx = $(Box, x);
  assign(r, bx);     V_ASSERT(r->val == (var)x, "Ref assigned from a Box refers to the Box's pointee");
#else
  struct Ref* c = copy(outer); V_ASSERT(c->val == (var)inner, "copy of a Ref of a Ref refers to the same Ref (one level)");
#endif
  V_WITNESS("refs assigned");
#elif CASE == 3
  struct Int* x = $I(7);
  struct Box* b;
  static struct { struct Header h; struct Box b; } emb;
#if SUB == 0
  b = $(Box, NULL);
#elif SUB == 1
  b = alloc_raw(Box);
#else
  b = header_init(&emb.h, Box, AllocData);
#endif
  b->val = x;
  V_ASSERT(deref(b) == (var)x, "deref returns the pointee");
  destruct(b);
  V_WITNESS("box destructed");
  V_ASSERT(n_del == 1 && del_arg[0] == (var)x, "a Box hands its pointee to del exactly once when it is finalised, whatever the Box's own allocation class");
  V_ASSERT(b->val == NULL, "and forgets it");
#endif
}
#endif
