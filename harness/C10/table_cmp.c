/* C10 (container clause, Table): Table_Cmp of the real Table.c between an ARBITRARY valid Table (as in
 * harness/C02/table_step.c, whose state construction this file shares) and an ABSTRACT other Table -- a map over the
 * same key domain with free membership, free values and a free iteration order, reached through len / mem / get /
 * iter_init / iter_next redirected to the harness (goto-instrument --replace-calls), so every layout and history of
 * the other side is covered at once.  Decided: cmp == 0 exactly when the two hold the same entries (so eq(copy(t), t)
 * and eq of equal maps built by different histories), whatever slots they occupy.
 * -- original header of the shared part follows --
 * C02 (+C05, C11, C12, C19 clauses): one operation of the real Table.c from an ARBITRARY
 * valid state: arbitrary occupancy, arbitrary keys/values, arbitrary (uninterpreted) hash
 * function H[], arbitrary robin-hood layout including wrap-around.  One inductive step covers
 * operation histories of any length for the slot counts explored (base case: table_init).
 *
 *   -DNS=<slots>  -DOP=<operation>  [-DELEM_D=<key domain>]
 */
#include "verif.h"
#ifndef NS
#define NS 5
#endif
#ifndef ELEM_D
#define ELEM_D 6
#endif
struct Inputs {
  uint64_t H[ELEM_D];
  unsigned char occ[NS]; uint64_t home[NS]; int64_t key[NS]; int64_t val[NS];
  int64_t q; int64_t k; int64_t v; uint64_t n;
  unsigned char has[ELEM_D]; int64_t val2[ELEM_D]; unsigned char perm[ELEM_D];
};
#ifndef V_REPLAY_INPUT_ONLY
#define eq verif_eq
#define hash verif_hash
#define assign verif_assign
#define destruct verif_destruct
#include "Cello.h"
var verif_assign(var, var); var verif_destruct(var); bool verif_eq(var, var); uint64_t verif_hash(var);
#include "Table.c"   /* the real /repo/src/Table.c (-I <repo>/src) */
#undef eq
#undef hash
#undef assign
#undef destruct
#include "env_elem.h"
V_DECLARE_INPUTS

#define OP_SET 1
#define OP_REM 2
#define OP_GET 3
#define OP_ITER 4
#define OP_RESIZE 5
#define OP_CLEAR_SET 6
#define OP_REM_ABSENT 7
#define OP_GET_ABSENT 8
#define OP_INIT 9
#define OP_DEL 10
#define OP_SETMOVE 11
#define OP_REHASH 12
#define OP_MARK 13
/* largest nitems with Table_Ideal_Size(nitems) <= NS (the size schedule itself is checked in OP_INIT) */
/* MAXN_BELOW: largest nitems that fits the next smaller size (-1: none) */
#if NS == 1
#define MAXN 0
#define MAXN_BELOW (-1)
#define NS_UP 5
#define NS_DOWN 0
#elif NS == 5
#define MAXN 4
#define MAXN_BELOW 0
#define NS_UP 11
#define NS_DOWN 1
#elif NS == 11
#define MAXN 9
#define MAXN_BELOW 4
#define NS_UP 23
#define NS_DOWN 5
#elif NS == 23
#define MAXN 19
#define MAXN_BELOW 9
#define NS_UP 53
#define NS_DOWN 11
#endif

static int64_t slot_key(struct Table* t, size_t i) { return ((struct Elem*)Table_Key(t, i))->val; }
static int64_t slot_val(struct Table* t, size_t i) { return ((struct Elem*)Table_Val(t, i))->val; }

/* representation invariant over ns slots (ns is a compile-time constant at every call site) */
static _Bool inv(struct Table* t, size_t ns) {
  size_t occ = 0;
  if (t->nslots != ns) return 0;
  for (size_t i = 0; i < ns; i++) {
    uint64_t h = Table_Key_Hash(t, i);
    if (h == 0) continue;
    occ++;
    int64_t k = slot_key(t, i);
    if (k < 0 || k >= ELEM_D) return 0;
#if defined(HBITS) || defined(HFULL)
    if (h != ELEM_H[k] % ns + 1) return 0;              /* stored home = hash % nslots + 1 */
#else
    if (h != (ELEM_H[k] < ns ? ELEM_H[k] : ELEM_H[k] % ns) + 1) return 0;
#endif
    uint64_t p = Table_Probe(t, i, h);
    for (size_t d = 0; d < ns; d++) {                    /* robin-hood: no hole, no poorer entry, between home and here */
      if (d >= p) break;
      size_t j = h - 1 + d; if (j >= ns) j -= ns;
      uint64_t hj = Table_Key_Hash(t, j);
      if (hj == 0) return 0;
      if (Table_Probe(t, j, hj) < d) return 0;
    }
    for (size_t j = 0; j < ns; j++) if (j != i && Table_Key_Hash(t, j) != 0 && slot_key(t, j) == k) return 0;
    /* embedded headers carry the element type and the Data allocation class (C19) */
    if (header(Table_Key(t, i))->type != Elem || header(Table_Val(t, i))->type != Elem) return 0;
#if CELLO_ALLOC_CHECK == 1
    if (header(Table_Key(t, i))->alloc != (var)AllocData || header(Table_Val(t, i))->alloc != (var)AllocData) return 0;
#endif
  }
  return occ == t->nitems;
}
/* ownership: every stored key and value holds a distinct live token; nothing else is live */
static _Bool owns(struct Table* t, size_t ns) {
  int seen[ELEM_MAXTOK]; for (int i = 0; i < ELEM_MAXTOK; i++) seen[i] = 0;
  int cnt = 0;
  for (size_t i = 0; i < ns; i++) {
    if (Table_Key_Hash(t, i) == 0) continue;
    int64_t a = ((struct Elem*)Table_Key(t, i))->tok, b = ((struct Elem*)Table_Val(t, i))->tok;
    if (a <= 0 || a >= ELEM_MAXTOK || b <= 0 || b >= ELEM_MAXTOK) return 0;
    if (elem_tok_state[a] != 1 || elem_tok_state[b] != 1) return 0;
    if (seen[a] || a == b || seen[b]) return 0;
    seen[a] = 1; seen[b] = 1; cnt += 2;
  }
  return cnt == elem_live_count();
}
static _Bool model_get(struct Table* t, size_t ns, int64_t q, int64_t* v) {
  for (size_t i = 0; i < ns; i++) if (Table_Key_Hash(t, i) != 0 && slot_key(t, i) == q) { *v = slot_val(t, i); return 1; }
  return 0;
}

/* throw oracle */
static var expect_throw = NULL;
static struct Table* snap_t; static unsigned char snap_struct[sizeof(struct Table)];
static unsigned char snap_data[NS * (8 + 2 * (sizeof(struct Header) + 16))]; static int snap_live;
static _Bool words_equal(const void* a, const void* b, size_t nbytes) {
  for (size_t i = 0; i < nbytes / 8; i++) if (((const uint64_t*)a)[i] != ((const uint64_t*)b)[i]) return 0;
  return 1;
}
static void snapshot(struct Table* t) {
  snap_t = t; *(struct Table*)snap_struct = *t;
  if (t->data) for (size_t i = 0; i < NS * Table_Step(t) / 8; i++) ((uint64_t*)snap_data)[i] = ((uint64_t*)t->data)[i];
  snap_live = elem_live_count();
}
void verif_on_throw(void* obj) {
  V_ASSERT(expect_throw != NULL, "operation raised an exception although its arguments are in contract");
  if (expect_throw == NULL) return;
  V_ASSERT(obj == expect_throw, "the documented exception is raised (KeyError for an absent key)");
  if (obj != expect_throw) return;      /* keeps the state comparison out of every other throw site */
  V_ASSERT(words_equal(snap_struct, snap_t, sizeof(struct Table)), "failed operation leaves the Table struct unchanged");
  if (snap_t->data) V_ASSERT(words_equal(snap_data, snap_t->data, NS * Table_Step(snap_t)), "failed operation leaves the slot storage unchanged");
  V_ASSERT(snap_live == elem_live_count() && elem_ledger_ok, "failed operation finalises nothing");
  V_WITNESS_OPT("throw path reached");
}

/* assume-guarantee split: in the SET / REM / RESIZE obligations calls to Table_Rehash are redirected here
 * (goto-instrument --replace-calls); Table_Rehash itself is discharged by the OP_REHASH obligations for every
 * pair of sizes on the schedule.  The stub records the request; the harness checks it against the schedule. */
static int rehash_calls = 0; static size_t rehash_size = 0;
void verif_rehash_stub(struct Table* t, size_t new_size) { rehash_calls++; rehash_size = new_size; }

/* Mark instance: the collector's callback must be handed every key and every value exactly once */
static var mark_seen[2 * NS + 2]; static int mark_n = 0; static var mark_gc;
static void mark_rec(var gc, void* p) { V_ASSERT(gc == mark_gc, "the collector handle is passed through"); if (mark_n < 2 * NS + 2) mark_seen[mark_n] = p; mark_n++; }

static struct Table* arbitrary_table(void) {
  /* the Table object is laid out directly (header + struct); the constructor is covered by OP_INIT */
  static struct { struct Header h; struct Table t; } tobj;
  struct Table* t = header_init(&tobj.h, Table, AllocHeap);
  t->ktype = Elem; t->vtype = Elem; t->ksize = 16; t->vsize = 16;
  t->sspace0 = calloc(1, Table_Step(t)); t->sspace1 = calloc(1, Table_Step(t));
#if 1
  /* guard band: cursor arithmetic forms one-before-first pointers (Table_Iter_Prev: curr - step, then
   * curr < first); cbmc orders pointers below an object's start ABOVE it, so the storage gets one
   * record of slack either side.  A cursor pointing into the slack is a harness assertion failure. */
  { char* base = calloc(NS + 2, Table_Step(t)); V_ASSUME(base != NULL); t->data = base + Table_Step(t); }
  t->nslots = NS;
#else
  t->nslots = NS; t->data = calloc(NS, Table_Step(t));
#endif
  V_ASSUME(t->data != NULL && t->sspace0 != NULL && t->sspace1 != NULL);
  size_t n = 0;
  for (size_t i = 0; i < NS; i++) {
    if (IN.occ[i]) {
      char* rec = (char*)t->data + i * Table_Step(t);
      V_ASSUME(IN.home[i] >= 1 && IN.home[i] <= NS);
      *(uint64_t*)rec = IN.home[i];
      struct Elem* k = header_init(rec + 8, Elem, AllocData);
      struct Elem* v = header_init(rec + 8 + sizeof(struct Header) + 16, Elem, AllocData);
      k->val = IN.key[i]; k->tok = elem_issue();
      v->val = IN.val[i]; v->tok = elem_issue();
      n++;
    }
  }
  t->nitems = n;
  V_ASSUME(inv(t, NS));
#if OP != OP_REHASH
  V_ASSUME(n <= MAXN);                      /* Table_Ideal_Size(nitems) <= nslots: what Table_Set / Table_Rem / Table_Resize maintain */
#endif
  return t;
}

/* ---- the abstract other Table ---- */
static struct { struct Header h; struct Table t; } oobj;
static var OBJ;
static struct { struct Header h; struct Elem e; } K2[ELEM_D], V2[ELEM_D];
static long key_id(var p) { for (long d = 0; d < ELEM_D; d++) if (p == (var)&K2[d].e) return d; return -1; }
size_t v2_len(var x) { V_ASSERT(x == OBJ, "harness: len of the other table only"); size_t n = 0; for (int d = 0; d < ELEM_D; d++) if (IN.has[d] & 1) n++; return n; }
bool v2_mem(var x, var key) { V_ASSERT(x == OBJ, "harness: mem on the other table only"); int64_t d = ((struct Elem*)key)->val; return d >= 0 && d < ELEM_D && (IN.has[d] & 1); }
var v2_get(var x, var key) { V_ASSERT(x == OBJ, "harness: get on the other table only"); int64_t d = ((struct Elem*)key)->val; V_ASSERT(d >= 0 && d < ELEM_D && (IN.has[d] & 1), "the other table is only asked for keys it holds"); return (d >= 0 && d < ELEM_D) ? (var)&V2[d].e : NULL; }
static var v2_from(int start) { for (int i = 0; i < ELEM_D; i++) if (i >= start && (IN.has[IN.perm[i]] & 1)) return (var)&K2[IN.perm[i]].e; return Terminal; }
var v2_iter_init(var x) { V_ASSERT(x == OBJ, "harness: iteration of the other table only"); return v2_from(0); }
var v2_iter_next(var x, var cur) { long d = key_id(cur); V_ASSERT(x == OBJ && d >= 0, "the other table is advanced from a cursor it handed out"); for (int i = 0; i < ELEM_D; i++) if (IN.perm[i] == d) return v2_from(i + 1); return Terminal; }
bool v2_neq(var a, var b) { return ((struct Elem*)a)->val != ((struct Elem*)b)->val; }
int v2_cmp(var a, var b) { return verif_cmp(a, b); }
/* Table_Get inside Table_Cmp: its contract (the value bound to a present key) is the table.get.* obligations */
var v2_table_get(var self, var key) { struct Table* t = self; for (size_t i = 0; i < NS; i++) if (Table_Key_Hash(t, i) != 0 && slot_key(t, i) == ((struct Elem*)key)->val) return Table_Val(t, i); V_ASSERT(0, "Table_Get is only asked for keys the table holds"); return NULL; }
V_HARNESS {
  V_LOAD_INPUTS();
  for (int i = 0; i < ELEM_D; i++) { V_ASSUME(IN.H[i] < NS); ELEM_H[i] = IN.H[i]; }
  struct Table* t = arbitrary_table();
  size_t n = t->nitems;
  OBJ = header_init(&oobj.h, Table, AllocHeap);
  for (int d = 0; d < ELEM_D; d++) {
    struct Elem* k2 = header_init(&K2[d].h, Elem, AllocData); k2->val = d;
    struct Elem* v2 = header_init(&V2[d].h, Elem, AllocData); v2->val = IN.val2[d];
    V_ASSUME(IN.perm[d] < ELEM_D);
    for (int e = 0; e < ELEM_D; e++) if (e < d) V_ASSUME(IN.perm[e] != IN.perm[d]);      /* the other side iterates in an arbitrary order */
  }
  size_t n2 = 0; for (int d = 0; d < ELEM_D; d++) if (IN.has[d] & 1) n2++;
  _Bool same = (n2 == n);
  for (size_t i = 0; i < NS; i++) if (Table_Key_Hash(t, i) != 0) { int64_t k = slot_key(t, i); if (!(IN.has[k] & 1) || IN.val2[k] != slot_val(t, i)) same = 0; }
  int r = Table_Cmp(t, OBJ);
  V_WITNESS("compared");
  V_ASSERT((r == 0) == same, "Table cmp is 0 exactly when both tables hold the same entries, whatever slots and iteration order they have (eq of equal maps, eq(copy(t), t))");
  V_ASSERT(r >= -1 && r <= 1, "cmp returns a sign");
  V_ASSERT(inv(t, NS) && owns(t, NS), "comparison changes nothing");
}
#endif
