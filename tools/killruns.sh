#!/bin/sh
# stop background check/cbmc runs (run this ALONE, never inside a compound command); solvers started by cbmc (z3, cvc5,
# kissat) are separate processes and survive their parent, so they are stopped too
for p in $(pgrep -f "tools/run_all.sh") $(pgrep -f "python3 ./check") $(pgrep -x cbmc) $(pgrep -x z3) $(pgrep -x cvc5) $(pgrep -x kissat); do kill -9 $p 2>/dev/null; done
echo stopped
