#!/bin/sh
# stop background check/cbmc runs (run this ALONE, never inside a compound command)
for p in $(pgrep -x cbmc) $(pgrep -f "python3 ./check") ; do kill -9 $p 2>/dev/null; done
echo stopped
