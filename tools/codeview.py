#!/usr/bin/env python3
"""print a Cello source file without the Doc boilerplate functions (reading aid)"""
import re,sys
src=open(sys.argv[1]).read().split('\n')
out=[];skip=False
for i,l in enumerate(src,1):
    if not skip and re.match(r'static (const char\*|struct Example\*|struct Method\*) \w+_(Name|Brief|Description|Definition|Examples|Methods)\(void\)',l):
        skip=True; continue
    if skip:
        if l.startswith('}'): skip=False
        continue
    if l.strip()=='' : continue
    out.append(f'{i}: {l}')
print('\n'.join(out))
