#!/usr/bin/env python3
"""showprops.py <cbmc.json> [regex]: list property statuses from a cbmc --json-ui output"""
import json,sys,re
d=json.load(open(sys.argv[1])); pat=sys.argv[2] if len(sys.argv)>2 else None
for e in d:
    if 'result' in e:
        for r in e['result']:
            if r['status']!='SUCCESS' or (pat and re.search(pat, r['property']+r.get('description',''))):
                print(r['status'], r['property'], r.get('description','')[:150], (r.get('sourceLocation') or {}).get('file','')[-20:], (r.get('sourceLocation') or {}).get('line'))
    elif 'messageText' in e and e.get('messageType')=='ERROR': print('ERR', e['messageText'][:300])
