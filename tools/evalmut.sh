#!/bin/sh
# evalmut.sh <evaldir> <patch> <prop-id> [check args...]: apply a seeded change to a scratch worktree, run a check against it (VERIF_REPO), revert
ev=$1; patch=$2; id=$3; shift 3
cd $ev && git checkout -q -- . && git apply $patch || { echo "APPLY FAILED"; exit 9; }
cd /verif && VERIF_REPO=$ev VERIF_PARTIAL=1 ./check $id "$@" > /tmp/evalmut-$(basename $ev)-$id.log 2>&1
rc=$?
cd $ev && git checkout -q -- .
echo "rc=$rc $(grep -c '^VIOLATION' /tmp/evalmut-$(basename $ev)-$id.log) violations; $(tail -1 /tmp/evalmut-$(basename $ev)-$id.log)"
