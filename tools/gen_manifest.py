#!/usr/bin/env python3
"""regenerate /verif/MANIFEST.json from props/*.py (claimed) and props/not_applicable.json"""
import importlib, json, os, sys
V = os.path.dirname(os.path.dirname(os.path.abspath(__file__)))
sys.path.insert(0, V)
ids = [json.loads(l)["id"] for l in open(os.path.join(V, "properties.jsonl"))]
na = json.load(open(os.path.join(V, "props", "not_applicable.json")))
checks = []
notapp = []
for i in ids:
    if os.path.exists(os.path.join(V, "props", i + ".py")):
        m = importlib.import_module("props." + i)
        if getattr(m, "CLAIMED", True):
            checks.append(dict(
                property_id=i,
                quick_cmd="./check %s --tier quick" % i,
                thorough_cmd="./check %s --tier thorough" % i,
                evidence_file="evidence/%s.json" % i,
                replay_cmd_template="./check --replay {path}",
                engine="cbmc",
                level_claimed=dict(category=m.LEVEL, text=m.LEVEL_TEXT, design_ref=getattr(m, "DESIGN_REF", "DESIGN.md section 4 " + i)),
                level_note=m.LEVEL_NOTE,
                technique=getattr(m, "TECHNIQUE", "bounded symbolic execution of the real C sources with CBMC (SAT/SMT verdict), counterexamples replayed natively")))
            if i in na:
                notapp.append(dict(property_id=i, reason="PARTLY (sub-clauses not claimed): " + na[i]))
            continue
    notapp.append(dict(property_id=i, reason="NOT CLAIMED: " + na.get(i, "no check built yet")))
man = dict(
    version=1,
    setup_cmd="python3 -c \"import json,sys; print('no build step: every check rebuilds from /repo with goto-cc')\"",
    hooks=dict(guard="CELLO_VERIF", enable="./check passes -DCELLO_VERIF to goto-cc/gcc when it compiles /repo/src/*.c",
               baseline_off_cmd="make -C /repo check", source_commits=json.load(open(os.path.join(V, "props", "hook_commits.json"))), add_only=True),
    engines=[dict(name="cbmc", path="/verif/check", serves_properties=[c["property_id"] for c in checks],
                  kind_free_text="python driver: goto-cc build of /repo's working tree + harness TUs, cbmc 6.11 bounded symbolic execution (SAT: minisat/cadical/kissat, SMT: cvc5/z3), witness twins, native replay with gcc+ASan+UBSan")],
    checks=checks,
    notes="All checks are solver-based (CBMC). Exit 0 = held within the stated bounds; exit 1 + VIOLATION = counterexample; exit 2 = inconclusive (never reported as success). Bounds per property are in DESIGN.md section 4 and in each evidence file.",
    not_applicable=notapp)
json.dump(man, open(os.path.join(V, "MANIFEST.json"), "w"), indent=1)
print("claimed:", [c["property_id"] for c in checks])
