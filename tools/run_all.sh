#!/bin/sh
# run_all.sh <tier> [ids...]: run the checks one after another, log to /tmp/verif-all-<tier>.log
tier=${1:-quick}; shift
ids=${@:-$(python3 -c "import json; print(' '.join(c['property_id'] for c in json.load(open('/verif/MANIFEST.json'))['checks']))")}
cd /verif
for id in $ids; do
  s=$(date +%s)
  ./check $id --tier $tier > /tmp/verif-all-$tier-$id.log 2>&1
  rc=$?
  e=$(date +%s)
  echo "$id rc=$rc wall=$((e-s))s $(tail -1 /tmp/verif-all-$tier-$id.log)" >> /tmp/verif-all-$tier.log
done
echo ALLDONE >> /tmp/verif-all-$tier.log
