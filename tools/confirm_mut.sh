#!/bin/sh
# confirm_mut.sh <srcdir> <i> : confirm seeded change <srcdir>/out/change<i>.diff + demo<i>.c in the scratch worktree /tmp/mut/eval3
W=/tmp/mut/eval3; S=$1; i=$2
cd $W && git checkout -q -- . && git clean -fdq
build_demo() { gcc -I include -std=gnu99 -w -DCELLO_NSTRACE $S/out/demo$i.c src/*.c -lpthread -lm -o /tmp/mut/demo_bin 2>/tmp/mut/demo_build.log; }
git apply $S/out/change$i.diff 2>/dev/null || { echo "$S $i: APPLY-FAILED"; exit 1; }
t=$(make check 2>&1 | grep -a "Tests" | grep -a -o "Failed *[0-9]*" | head -1)
build_demo || { echo "$S $i: DEMO-BUILD-FAILED"; git checkout -q -- .; exit 1; }
timeout 60 /tmp/mut/demo_bin > /tmp/mut/demo_with.txt 2>&1; rc_with=$?
git checkout -q -- .
build_demo; timeout 60 /tmp/mut/demo_bin > /tmp/mut/demo_without.txt 2>&1; rc_without=$?
make -s clean >/dev/null 2>&1
echo "$S $i: tests-with-change='$t' demo-with-change-rc=$rc_with demo-without-rc=$rc_without"
