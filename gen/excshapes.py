"""try/catch/throw program trees for C07.  A block is a tuple of statements; a statement is
 ('N',) plain statement | ('T',) throw (kind and fires-or-not are symbolic) | ('Y', body, handler) try/catch."""
import os, re

def blocks(size, depth):
    """all blocks with exactly `size` nodes and try-nesting <= depth"""
    if size == 0:
        return [()]
    out = []
    for first_size in range(1, size + 1):
        for st in stmts(first_size, depth):
            for rest in blocks(size - first_size, depth):
                out.append((st,) + rest)
    return out

_cache = {}
def stmts(size, depth):
    key = (size, depth)
    if key in _cache:
        return _cache[key]
    out = []
    if size == 1:
        out += [("N",), ("T",)]
    if depth > 0 and size >= 1:
        inner = size - 1
        for b in range(0, inner + 1):
            for body in blocks(b, depth - 1):
                for handler in blocks(inner - b, depth - 1):
                    out.append(("Y", body, handler))
    _cache[key] = out
    return out

def programs(maxsize, depth):
    ps = []
    for s in range(1, maxsize + 1):
        for p in blocks(s, depth):
            if has(p, "T") and has(p, "Y"):      # programs without a throw or without a try are trivial
                ps.append(p)
    return ps

def has(block, k):
    for st in block:
        if st[0] == k:
            return True
        if st[0] == "Y" and (has(st[1], k) or has(st[2], k)):
            return True
    return False

def show(block):
    def s(st):
        if st[0] == "N": return "stmt"
        if st[0] == "T": return "throw"
        return "try{%s}catch{%s}" % (show(st[1]), show(st[2]))
    return "; ".join(s(x) for x in block)

def flatten(block, nodes):
    """-> index of first node of block (or -1); nodes: [kind, body, handler, next]"""
    first = -1; prev = -1
    for st in block:
        i = len(nodes)
        nodes.append([0, -1, -1, -1])
        if st[0] == "N": nodes[i][0] = 0
        elif st[0] == "T": nodes[i][0] = 1
        else:
            nodes[i][0] = 2
            nodes[i][1] = flatten(st[1], nodes)
            nodes[i][2] = flatten(st[2], nodes)
        if prev >= 0: nodes[prev][3] = i
        else: first = i
        prev = i
    return first

EXPECT_TRY = "#define try { jmp_buf __env; exception_try(&__env); if (!setjmp(__env))"
EXPECT_CATCH = ["#define catch_in(X, ...) else { exception_try_fail(); } exception_try_end(); } \\",
                "  for (var X = exception_catch(tuple(__VA_ARGS__)); \\", "    X isnt NULL; X = NULL)"]
EXPECT_THROW = "#define throw(E, F, ...) exception_throw(E, F, tuple(__VA_ARGS__))"

def gen_programs(maxsize, depth, chunk, nchunk):
    def g(repo, workdir):
        h = open(os.path.join(repo, "include", "Cello.h")).read().split("\n")
        # the harness interpreter drives exception_try / setjmp / exception_try_fail / exception_try_end /
        # exception_catch exactly in the order of these macro bodies: fail closed if the macros change
        def find(line):
            return any(l.rstrip() == line for l in h)
        if not find(EXPECT_TRY) or not all(find(l) for l in EXPECT_CATCH) or not find(EXPECT_THROW):
            raise RuntimeError("the try/catch/throw macros in Cello.h are no longer the ones the C07 interpreter mirrors; update harness/C07")
        ps = programs(maxsize, depth)
        mine = [p for i, p in enumerate(ps) if i % nchunk == chunk]
        maxnodes = maxsize
        with open(os.path.join(workdir, "gen_programs.h"), "w") as f:
            f.write("/* %d of %d programs with <= %d nodes, nesting <= %d */\n" % (len(mine), len(ps), maxsize, depth))
            f.write("#define GP_N %d\n#define GP_MAXNODES %d\n" % (len(mine), maxnodes))
            f.write("static const signed char GP[GP_N][GP_MAXNODES][4] = {\n")
            for p in mine:
                nodes = []
                flatten(p, nodes)
                while len(nodes) < maxnodes:
                    nodes.append([0, -1, -1, -1])
                f.write("  /* %s */ { %s },\n" % (show(p), ", ".join("{%d,%d,%d,%d}" % tuple(n) for n in nodes)))
            f.write("};\nstatic const signed char GP_LEN[GP_N] = { %s };\n" % ", ".join(str(sum(1 for _ in iter_nodes(p))) for p in mine))
        return dict(programs=len(mine), total=len(ps), samples=[show(p) for p in mine[:3]])
    return g

def iter_nodes(block):
    for st in block:
        yield st
        if st[0] == "Y":
            yield from iter_nodes(st[1]); yield from iter_nodes(st[2])

if __name__ == "__main__":
    for s in range(2, 8):
        print(s, len(programs(s, 3)))
