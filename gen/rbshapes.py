"""Enumerate every red-black tree shape (structure + colouring, black root) with at most N nodes.
A shape is a nested tuple (colour, left, right) or None; nodes are numbered in pre-order."""
import functools, os

@functools.lru_cache(None)
def trees(bh, allow_red, maxn):
    """all subtrees with black height bh (counting black nodes on every root-to-NULL path), at most maxn nodes;
    root may be red only if allow_red"""
    out = []
    if bh == 0:
        out.append((None, 0))
    if maxn == 0:
        return tuple(out)
    # black root: children have black height bh-1, any colour
    if bh >= 1:
        for (l, nl) in trees(bh - 1, True, maxn - 1):
            for (r, nr) in trees(bh - 1, True, maxn - 1 - nl):
                out.append((("B", l, r), nl + nr + 1))
    # red root: children black (or NULL) with the same black height
    if allow_red:
        for (l, nl) in trees(bh, False, maxn - 1):
            for (r, nr) in trees(bh, False, maxn - 1 - nl):
                if l is None and r is None and bh != 0:
                    continue
                out.append((("R", l, r), nl + nr + 1))
    return tuple(out)

def all_shapes(maxn):
    res = [None]
    for bh in range(1, 6):
        for (t, n) in trees(bh, False, maxn):
            if t is not None and n <= maxn:
                res.append(t)
    # dedupe, stable
    seen = set(); out = []
    for t in res:
        if t not in seen:
            seen.add(t); out.append(t)
    return out

def flatten(t):
    """pre-order numbering -> lists left,right,parent,red and the in-order sequence"""
    left, right, parent, red = [], [], [], []
    inorder = []
    def go(node, par):
        if node is None:
            return -1
        i = len(left)
        left.append(-1); right.append(-1); parent.append(par); red.append(1 if node[0] == "R" else 0)
        l = go(node[1], i)
        inorder.append(i)
        r = go(node[2], i)
        left[i] = l; right[i] = r
        return i
    root = go(t, -1)
    return root, left, right, parent, red, inorder

def count(t):
    return 0 if t is None else 1 + count(t[1]) + count(t[2])

def show(t):
    return "." if t is None else "(%s %s %s)" % (t[0], show(t[1]), show(t[2]))

def gen_shape_header(shape_index, maxn):
    def g(repo, workdir):
        shapes = all_shapes(maxn)
        t = shapes[shape_index]
        root, left, right, parent, red, inorder = flatten(t)
        n = len(left)
        def arr(name, xs):
            return "static const signed char %s[SH_N + 1] = { %s };\n" % (name, ", ".join(str(x) for x in (xs + [0])))
        with open(os.path.join(workdir, "gen_shape.h"), "w") as f:
            f.write("/* red-black shape %d of %d with <= %d nodes: %s */\n" % (shape_index, len(shapes), maxn, show(t)))
            f.write("#define SH_N %d\n#define SH_ROOT %d\n" % (n, root))
            f.write(arr("SH_LEFT", left) + arr("SH_RIGHT", right) + arr("SH_PARENT", parent) + arr("SH_RED", red) + arr("SH_INORDER", inorder))
        return dict(shape=show(t), nodes=n)
    return g

if __name__ == "__main__":
    for n in range(0, 9):
        print(n, len([t for t in all_shapes(8) if count(t) == n]))
