"""Generators run on every check from /repo's current tree."""
import os, re

def parse_cello_h(repo):
    h = open(os.path.join(repo, "include", "Cello.h")).read()
    def section(a, b):
        s = h[h.index(a):h.index(b)]
        return re.findall(r"extern var (\w+);", s)
    types = section("/* Types */", "/* Data */")
    classes = section("/* Classes */", "/* Signatures */")
    return types, classes

def gen_type_tables(repo, workdir):
    """gen_types.h: the built-in types and classes declared by the current Cello.h"""
    types, classes = parse_cello_h(repo)
    if len(types) < 20 or len(classes) < 20:
        raise RuntimeError("generator could not parse the type/class sections of Cello.h")
    with open(os.path.join(workdir, "gen_types.h"), "w") as f:
        f.write("/* generated from %s/include/Cello.h */\n" % repo)
        f.write("#define GEN_NTYPES %d\n#define GEN_NCLASSES %d\n" % (len(types) + len(classes), len(classes)))
        f.write("static var gen_types[GEN_NTYPES]; static var gen_classes[GEN_NCLASSES];\n")
        f.write("static const char* gen_type_names[GEN_NTYPES] = { %s };\n" % ", ".join('"%s"' % t for t in types + classes))
        f.write("static const char* gen_class_names[GEN_NCLASSES] = { %s };\n" % ", ".join('"%s"' % t for t in classes))
        f.write("static void gen_fill(void) {\n")
        for i, t in enumerate(types + classes):
            f.write("  gen_types[%d] = %s;\n" % (i, t))
        for i, t in enumerate(classes):
            f.write("  gen_classes[%d] = %s;\n" % (i, t))
        f.write("}\n")
    return dict(types=len(types) + len(classes), classes=len(classes))
